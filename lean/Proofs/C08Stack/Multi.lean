import Proofs.C08Stack.PushPop
/-!
# C08 (stack part 6) — the two-word pairs `pusha`/`popa`, `push px`/`pop px`, and `push abe`/`pop abe`

* `pusha ax|bx` pushes the low 32 bits of the accumulator *after `GetAndSatAcc`* (saturated unless
  `sat ≠ 0`), low word first; `popa ab` pops high then low, and assigns
  `SignExtend<32>(h:l)` with `SetAccAndFlag` (flags `fz fm fe fn` recomputed, no saturation).
* `push px` pushes the low 32 bits of `ProductToBus40(px)` (so the product shifter `ps` applies);
  `pop px` assigns `p = value`, `pe = value >> 31`.
* `push abe` pushes bits 32..47 of `GetAndSatAcc`; `pop abe` replaces bits 32..63 by
  `SignExtend<8>` of the popped byte (`SetAccAndFlag`).
-/
namespace Teakra
open Teakra Exec ExecLemmas Interp Sys RegName

/-! ## two words on the stack -/

/-- The machine after pushing `w1` then `w2`. -/
def pushed2 (c : Core) (a1 a2 : U32) (w1 w2 : U16) : Core :=
  { c with
    regs := { c.regs with sp := c.regs.sp - 2 }
    bus := { c.bus with mem := (c.bus.mem.write (stackCell a1) w1).write (stackCell a2) w2 }
    log := ⟨Mem.byteAddr a2, true, w2⟩ :: ⟨Mem.byteAddr a1, true, w1⟩ :: c.log }

theorem push2_run (c : Core) (w1 w2 : U16) (a1 a2 : U32)
    (h1 : OrdinaryAt c.bus (c.regs.sp - 1) a1) (h2 : OrdinaryAt c.bus (c.regs.sp - 2) a2) :
    (do pushWord w1; pushWord w2 : Exec Unit).run c = .ok ((), pushed2 c a1 a2 w1 w2) := by
  rw [run_bind, pushWord_ordinary c w1 a1 h1]
  simp only [except_ok_bind]
  have h2' : OrdinaryAt
      ({ c with regs := { c.regs with sp := c.regs.sp - 1 }
                bus := { c.bus with mem := c.bus.mem.write (stackCell a1) w1 }
                log := ⟨Mem.byteAddr a1, true, w1⟩ :: c.log } : Core).bus
      (({ c with regs := { c.regs with sp := c.regs.sp - 1 }
                 bus := { c.bus with mem := c.bus.mem.write (stackCell a1) w1 }
                 log := ⟨Mem.byteAddr a1, true, w1⟩ :: c.log } : Core).regs.sp - 1) a2 := by
    show OrdinaryAt _ (c.regs.sp - 1 - 1) a2
    rw [sub_one_sub_one]; exact h2.after_write _
  rw [pushWord_ordinary _ w2 a2 h2']
  show Except.ok ((), ({ c with regs := { c.regs with sp := c.regs.sp - 1 - 1 }, bus := _, log := _ } : Core)) = _
  rw [sub_one_sub_one]
  rfl

/-- The machine after popping two words. -/
def popped2 (c : Core) (a1 a2 : U32) : Core :=
  { c with regs := { c.regs with sp := c.regs.sp + 2 }
           log := ⟨Mem.byteAddr a1, false, 0⟩ :: ⟨Mem.byteAddr a2, false, 0⟩ :: c.log }

theorem pop2_run {α : Type} (c : Core) (a1 a2 : U32) (k : U16 → U16 → Exec α)
    (o2 : OrdinaryAt c.bus c.regs.sp a2) (o1 : OrdinaryAt c.bus (c.regs.sp + 1) a1) :
    (do let x ← popWord; let y ← popWord; k x y).run c =
      (k (c.bus.mem.read (stackCell a2)) (c.bus.mem.read (stackCell a1))).run (popped2 c a1 a2) := by
  rw [run_bind, popWord_ordinary c a2 o2]
  simp only [except_ok_bind]
  have o1' : OrdinaryAt
      ({ c with regs := { c.regs with sp := c.regs.sp + 1 }
                log := ⟨Mem.byteAddr a2, false, 0⟩ :: c.log } : Core).bus
      ({ c with regs := { c.regs with sp := c.regs.sp + 1 }
                log := ⟨Mem.byteAddr a2, false, 0⟩ :: c.log } : Core).regs.sp a1 := o1
  rw [run_bind, popWord_ordinary _ a1 o1']
  simp only [except_ok_bind]
  show (k _ _).run ({ c with regs := { c.regs with sp := c.regs.sp + 1 + 1 }, log := _ } : Core) = _
  rw [add_one_add_one]
  rfl

/-- The machine after pushing `w1`, `w2` and popping both: registers as before, the two slots hold
the words, four accesses logged. -/
def afterPushPop2 (c : Core) (a1 a2 : U32) (w1 w2 : U16) : Core :=
  { c with
    bus := { c.bus with mem := (c.bus.mem.write (stackCell a1) w1).write (stackCell a2) w2 }
    log := ⟨Mem.byteAddr a1, false, 0⟩ :: ⟨Mem.byteAddr a2, false, 0⟩ ::
           ⟨Mem.byteAddr a2, true, w2⟩ :: ⟨Mem.byteAddr a1, true, w1⟩ :: c.log }

/-- **Two-word round trip**: the words come back in reverse order, `sp` is restored. -/
theorem push2_pop2 {α : Type} (c : Core) (w1 w2 : U16) (a1 a2 : U32) (k : U16 → U16 → Exec α)
    (h1 : OrdinaryAt c.bus (c.regs.sp - 1) a1) (h2 : OrdinaryAt c.bus (c.regs.sp - 2) a2) :
    (do (do pushWord w1; pushWord w2 : Exec Unit); (do let x ← popWord; let y ← popWord; k x y)).run c =
      (k w2 w1).run (afterPushPop2 c a1 a2 w1 w2) := by
  rw [run_bind, push2_run c w1 w2 a1 a2 h1 h2]
  simp only [except_ok_bind]
  have hne : stackCell a1 ≠ stackCell a2 := h1.cell_ne h2 (sub_one_ne_sub_two _)
  have o2 : OrdinaryAt (pushed2 c a1 a2 w1 w2).bus (pushed2 c a1 a2 w1 w2).regs.sp a2 := h2.after_write _
  have o1 : OrdinaryAt (pushed2 c a1 a2 w1 w2).bus ((pushed2 c a1 a2 w1 w2).regs.sp + 1) a1 := by
    show OrdinaryAt _ (c.regs.sp - 2 + 1) a1
    rw [sub_two_add_one]; exact h1.after_write _
  rw [pop2_run _ a1 a2 k o2 o1]
  have r2 : (pushed2 c a1 a2 w1 w2).bus.mem.read (stackCell a2) = w2 := by
    show ((c.bus.mem.write _ _).write _ _).read _ = _
    rw [Bus.Mem.read_write, if_pos rfl]
  have r1 : (pushed2 c a1 a2 w1 w2).bus.mem.read (stackCell a1) = w1 := by
    show ((c.bus.mem.write _ _).write _ _).read _ = _
    rw [Bus.Mem.read_write, if_neg hne, Bus.Mem.read_write, if_pos rfl]
  rw [r1, r2]
  congr 1
  show ({ pushed2 c a1 a2 w1 w2 with regs := { c.regs with sp := c.regs.sp - 2 + 2 }, log := _ } : Core) = _
  rw [sub_two_add_two]
  rfl

/-! ## bit lemmas: splitting a 32-bit value into halves and joining them -/

theorem join16_32 (x : U32) :
    ((((x >>> 16).setWidth 16 : U16).setWidth 32 : U32) <<< 16) |||
      (((x &&& 0xFFFF).setWidth 16 : U16).setWidth 32 : U32) = x := by
  rw [BitVec.or_comm]; exact pc_of_halves x

private theorem low16_set' : ∀ j : Fin 16, (65535#32 : BitVec 32)[j.val]'(by omega) = true := by decide

theorem join16_64 (x : U32) :
    ((((x >>> 16).setWidth 16 : U16).setWidth 64 : U64) <<< 16) |||
      (((x &&& 0xFFFF).setWidth 16 : U16).setWidth 64 : U64) = x.setWidth 64 := by
  apply BitVec.eq_of_getLsbD_eq
  intro i hi
  simp only [BitVec.getLsbD_or, BitVec.getLsbD_setWidth, BitVec.getLsbD_and, BitVec.getLsbD_shiftLeft,
    BitVec.getLsbD_ushiftRight]
  by_cases h : i < 16
  · simp [h, hi]
    intro _
    exact low16_set' ⟨i, h⟩
  · by_cases h2 : i < 32
    · have e : 16 + (i - 16) = i := by omega
      simp [h, hi, e, show i - 16 < 16 by omega]
      intro _; omega
    · have e : 16 + (i - 16) = i := by omega
      have h3 : ¬ (i - 16 < 16) := by omega
      have h4 : x.getLsbD i = false := BitVec.getLsbD_of_ge x i (by omega)
      simp [h, hi, h3, e, h4]

theorem low32_setWidth (v : U64) : ((v &&& 0xFFFFFFFF).setWidth 32 : U32) = v.setWidth 32 := by
  apply BitVec.eq_of_getLsbD_eq
  intro i hi
  simp only [BitVec.getLsbD_setWidth, BitVec.getLsbD_and]
  have : (0xFFFFFFFF#64).getLsbD i = true := by
    have : ∀ j : Fin 32, (0xFFFFFFFF#64).getLsbD j.val = true := by decide
    exact this ⟨i, hi⟩
  simp [hi, this]

/-- `SignExtend<32>` only looks at the low 32 bits. -/
theorem signExtend32_setWidth (x : U32) : Alu.signExtend 32 (x.setWidth 64) = x.signExtend 64 := by
  unfold Alu.signExtend
  congr 1
  apply BitVec.eq_of_getLsbD_eq
  intro i hi
  simp [hi]

/-! ## accumulator access -/

/-- `a[i]` / `b[i]`. -/
def accOf (r : Regs) (isB : Bool) (i : Fin 2) : U64 := if isB then r.b[i] else r.a[i]

def setAccOf (r : Regs) (isB : Bool) (i : Fin 2) (v : U64) : Regs :=
  if isB then { r with b := r.b.set i v } else { r with a := r.a.set i v }

theorem getAcc_run' (n : RegName) (isB : Bool) (i : Fin 2) (h : accIndex n = some (isB, i)) (c : Core) :
    (getAcc n).run c = .ok (accOf c.regs isB i, c) := by
  unfold getAcc
  rw [run_bind, run_getRegs, except_ok_bind, fst_mk, snd_mk, h]
  cases isB <;> rfl

theorem setAcc_run' (n : RegName) (isB : Bool) (i : Fin 2) (h : accIndex n = some (isB, i)) (v : U64)
    (c : Core) :
    (setAcc n v).run c = .ok ((), { c with regs := setAccOf c.regs isB i v }) := by
  unfold setAcc
  rw [h]
  cases isB <;> rfl

/-- `GetAndSatAcc` on the register file: value read and the registers afterwards (`flm := 1` if
saturation happened). -/
def satRead (r : Regs) (acc : U64) : U64 × Regs :=
  if r.sat == 0 then
    ((Alu.saturate acc).1, if (Alu.saturate acc).2 = true then { r with flm := 1 } else r)
  else (acc, r)

theorem getAndSatAcc_run (n : RegName) (isB : Bool) (i : Fin 2) (h : accIndex n = some (isB, i)) (c : Core) :
    (getAndSatAcc n).run c =
      .ok ((satRead c.regs (accOf c.regs isB i)).1, { c with regs := (satRead c.regs (accOf c.regs isB i)).2 }) := by
  unfold getAndSatAcc satRead
  rw [run_bind, getAcc_run' n isB i h]
  simp only [except_ok_bind, run_bind, run_getRegs]
  by_cases hs : (c.regs.sat == 0) = true
  · simp only [hs, if_true]
    unfold saturateAcc
    cases hsat : (Alu.saturate (accOf c.regs isB i)).2
    · have : Alu.saturate (accOf c.regs isB i) = ((Alu.saturate (accOf c.regs isB i)).1, false) := by
        rw [← hsat]
      rw [this]; rfl
    · have : Alu.saturate (accOf c.regs isB i) = ((Alu.saturate (accOf c.regs isB i)).1, true) := by
        rw [← hsat]
      rw [this]; rfl
  · simp only [hs]
    rfl

/-- With saturation on moves disabled (`sat ≠ 0`) `GetAndSatAcc` is a plain read. -/
theorem satRead_off (r : Regs) (acc : U64) (h : r.sat ≠ 0) : satRead r acc = (acc, r) := by
  unfold satRead
  rw [if_neg (by simpa using h)]

/-- … and also when the accumulator is the sign extension of its low 32 bits. -/
theorem satRead_fits (r : Regs) (acc : U64) (h : acc = Alu.signExtend 32 acc) : satRead r acc = (acc, r) := by
  unfold satRead Alu.saturate
  have : (acc != Alu.signExtend 32 acc) = false := by rw [← h]; simp
  simp only [this, Bool.false_eq_true, if_false]
  split <;> rfl

theorem satRead_sp (r : Regs) (acc : U64) : (satRead r acc).2.sp = r.sp := by
  unfold satRead
  split
  · simp only []; split <;> rfl
  · rfl

/-- `SetAccAndFlag` on the register file. -/
def setAccAndFlagPure (isB : Bool) (i : Fin 2) (v : U64) (r : Regs) : Regs :=
  setAccOf { r with fz := (Alu.accFlags v).fz, fm := (Alu.accFlags v).fm, fe := (Alu.accFlags v).fe,
                    fn := (Alu.accFlags v).fn } isB i v

theorem setAccAndFlag_run (n : RegName) (isB : Bool) (i : Fin 2) (h : accIndex n = some (isB, i)) (v : U64)
    (c : Core) :
    (setAccAndFlag n v).run c = .ok ((), { c with regs := setAccAndFlagPure isB i v c.regs }) := by
  unfold setAccAndFlag setAccFlag
  rw [run_bind, run_modifyRegs, except_ok_bind, snd_mk, setAcc_run' n isB i h]
  rfl

end Teakra
