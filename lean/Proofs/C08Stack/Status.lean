import Proofs.C08Stack.Abs
/-!
# C08 (stack part 11) — `push` / `pop` of status, config, `ar`, `arp` words

The explicit slot lists below are copies of `TeakraModel/Golden/RegLayout.lean`; each is checked
against `layoutOf` (`layout_*`, by `decide +kernel`), so a change of the table breaks this file
rather than silently weakening it.

`push st0|st1|st2|cfgi|cfgj` (operand `Register`) and `push ar0..arp3|stt0..stt2|mod0..mod3`
(operand `ArArpSttMod`) push `RegisterState::Get<word>()`; the matching `pop` runs
`RegisterState::Set<word>(value)`.

Result (`push_pop_pseudo`, `status_set_get`): the register file after the pair is
`wordSet (wordGet r) r`, which is **`r` itself** when the members shown by the word fit their slots
(the hardware-width invariant `WordFits`) and

* for `stt2`: no hardware loop is active (`lp = 0`) — bit 15 is write-one-to-clear for `lp` *and*
  `bcn` (`LPRedirector`), so popping a pushed `stt2` with `lp = 1` ends the loop
  (`push_pop_stt2_counterexample`);
* for `st0`: `flm = fvl` (bit 5 reads `flm | fvl` and writes both: `push_pop_st0_counterexample`)
  and `a0` is the sign extension of its low 36 bits (the word has only 4 bits of `a0e`);
* for `st1`: `a1` is the sign extension of its low 36 bits (`push_pop_st1_counterexample`).

Read-only members (`iu`, `ip`, `ipv`, `bcn`, `mod0_unk_const`) are not written by `pop` at all.
-/
namespace Teakra
open Teakra Exec ExecLemmas Interp Sys RegName
open Teakra.Regs (Slot)

set_option linter.unusedSimpArgs false

/-! ## writing a member back -/

theorem vset_getD_self {k : Nat} (v : Vector U16 k) (i : Nat) : vset v i (v.toArray.getD i 0) = v := by
  unfold vset
  by_cases h : i < k
  · rw [dif_pos h]
    have : v.toArray.getD i 0 = v[i] := by simp [Array.getD, h]
    rw [this]
    apply Vector.ext; intro j hj
    simp only [Vector.getElem_set]
    split
    · subst_vars; rfl
    · rfl
  · rw [dif_neg h]

theorem setF_iu (r : Regs) (i : Nat) : ({ r with iu := vset r.iu i (r.iu.toArray.getD i 0) } : Regs) = r := by
  rw [vset_getD_self]

theorem setF_pe (r : Regs) (i : Nat) : ({ r with pe := vset r.pe i (r.pe.toArray.getD i 0) } : Regs) = r := by
  rw [vset_getD_self]

theorem setF_ip (r : Regs) (i : Nat) : ({ r with ip := vset r.ip i (r.ip.toArray.getD i 0) } : Regs) = r := by
  rw [vset_getD_self]

theorem setF_ou (r : Regs) (i : Nat) : ({ r with ou := vset r.ou i (r.ou.toArray.getD i 0) } : Regs) = r := by
  rw [vset_getD_self]

theorem setF_ps (r : Regs) (i : Nat) : ({ r with ps := vset r.ps i (r.ps.toArray.getD i 0) } : Regs) = r := by
  rw [vset_getD_self]

theorem setF_m (r : Regs) (i : Nat) : ({ r with m := vset r.m i (r.m.toArray.getD i 0) } : Regs) = r := by
  rw [vset_getD_self]

theorem setF_br (r : Regs) (i : Nat) : ({ r with br := vset r.br i (r.br.toArray.getD i 0) } : Regs) = r := by
  rw [vset_getD_self]

theorem setF_ic (r : Regs) (i : Nat) : ({ r with ic := vset r.ic i (r.ic.toArray.getD i 0) } : Regs) = r := by
  rw [vset_getD_self]

theorem setF_im (r : Regs) (i : Nat) : ({ r with im := vset r.im i (r.im.toArray.getD i 0) } : Regs) = r := by
  rw [vset_getD_self]

theorem setF_arstep (r : Regs) (i : Nat) : ({ r with arstep := vset r.arstep i (r.arstep.toArray.getD i 0) } : Regs) = r := by
  rw [vset_getD_self]

theorem setF_aroffset (r : Regs) (i : Nat) : ({ r with aroffset := vset r.aroffset i (r.aroffset.toArray.getD i 0) } : Regs) = r := by
  rw [vset_getD_self]

theorem setF_arrn (r : Regs) (i : Nat) : ({ r with arrn := vset r.arrn i (r.arrn.toArray.getD i 0) } : Regs) = r := by
  rw [vset_getD_self]

theorem setF_arpstepi (r : Regs) (i : Nat) : ({ r with arpstepi := vset r.arpstepi i (r.arpstepi.toArray.getD i 0) } : Regs) = r := by
  rw [vset_getD_self]

theorem setF_arpstepj (r : Regs) (i : Nat) : ({ r with arpstepj := vset r.arpstepj i (r.arpstepj.toArray.getD i 0) } : Regs) = r := by
  rw [vset_getD_self]

theorem setF_arpoffseti (r : Regs) (i : Nat) : ({ r with arpoffseti := vset r.arpoffseti i (r.arpoffseti.toArray.getD i 0) } : Regs) = r := by
  rw [vset_getD_self]

theorem setF_arpoffsetj (r : Regs) (i : Nat) : ({ r with arpoffsetj := vset r.arpoffsetj i (r.arpoffsetj.toArray.getD i 0) } : Regs) = r := by
  rw [vset_getD_self]

theorem setF_arprni (r : Regs) (i : Nat) : ({ r with arprni := vset r.arprni i (r.arprni.toArray.getD i 0) } : Regs) = r := by
  rw [vset_getD_self]

theorem setF_arprnj (r : Regs) (i : Nat) : ({ r with arprnj := vset r.arprnj i (r.arprnj.toArray.getD i 0) } : Regs) = r := by
  rw [vset_getD_self]

/-- Closes `slotSet r s (slotGet r s) = r` for a concrete `rw` / `ro` slot. -/
macro "slot_idem" : tactic => `(tactic| first | rfl | exact setF_iu _ _ | exact setF_pe _ _ | exact setF_ip _ _ | exact setF_ou _ _ | exact setF_ps _ _ | exact setF_m _ _ | exact setF_br _ _ | exact setF_ic _ _ | exact setF_im _ _ | exact setF_arstep _ _ | exact setF_aroffset _ _ | exact setF_arrn _ _ | exact setF_arpstepi _ _ | exact setF_arpstepj _ _ | exact setF_arpoffseti _ _ | exact setF_arpoffsetj _ _ | exact setF_arprni _ _ | exact setF_arprnj _ _)

/-! ## the special proxies -/

/-- `DoubleRedirector<flm, fvl>` (bit 5 of `st0`). -/
theorem double_idem (r : Regs) (h : r.flm = r.fvl) :
    slotSet r ⟨.double, "flm", 0, "fvl", 5, 1⟩ (slotGet r ⟨.double, "flm", 0, "fvl", 5, 1⟩) = r := by
  show ({ r with flm := r.flm ||| r.fvl, fvl := r.flm ||| r.fvl } : Regs) = r
  cases r
  simp only [] at h
  subst h
  simp

/-- What `AccEProxy::Set(AccEProxy::Get())` makes of an accumulator: bits 36..63 become copies of
bit 35. -/
def accENorm (a : U64) : U64 :=
  (a &&& 0xFFFFFFFF) |||
    (((Alu.signExtend32 4 ((((a >>> 32) &&& 0xF).setWidth 16 : U16).setWidth 32)).setWidth 64 : U64) <<< 32)

theorem accE_idem0 (r : Regs) (h : accENorm r.a[0] = r.a[0]) :
    slotSet r ⟨.accE, "a", 0, "", 12, 4⟩ (slotGet r ⟨.accE, "a", 0, "", 12, 4⟩) = r := by
  have g0 : r.a.toArray.getD 0 0 = r.a[0] := by simp [Array.getD]
  show ({ r with a := r.a.set 0 ((r.a[0] &&& 0xFFFFFFFF) |||
    (((Alu.signExtend32 4 ((((r.a.toArray.getD 0 0 >>> 32) &&& 0xF).setWidth 16 : U16).setWidth 32)).setWidth 64 : U64) <<< 32)) } : Regs) = r
  rw [g0]
  have : r.a.set 0 (accENorm r.a[0]) = r.a := by
    rw [h]
    apply Vector.ext; intro j hj
    simp only [Vector.getElem_set]
    split
    · subst_vars; rfl
    · rfl
  exact congrArg (fun v => ({ r with a := v } : Regs)) this

theorem accE_idem1 (r : Regs) (h : accENorm r.a[1] = r.a[1]) :
    slotSet r ⟨.accE, "a", 1, "", 12, 4⟩ (slotGet r ⟨.accE, "a", 1, "", 12, 4⟩) = r := by
  have g1 : r.a.toArray.getD 1 0 = r.a[1] := by simp [Array.getD]
  show ({ r with a := r.a.set 1 ((r.a[1] &&& 0xFFFFFFFF) |||
    (((Alu.signExtend32 4 ((((r.a.toArray.getD 1 0 >>> 32) &&& 0xF).setWidth 16 : U16).setWidth 32)).setWidth 64 : U64) <<< 32)) } : Regs) = r
  rw [g1]
  have : r.a.set 1 (accENorm r.a[1]) = r.a := by
    rw [h]
    apply Vector.ext; intro j hj
    simp only [Vector.getElem_set]
    split
    · subst_vars; rfl
    · rfl
  exact congrArg (fun v => ({ r with a := v } : Regs)) this

/-- `LPRedirector` (bit 15 of `stt2`): writing back a set `lp` bit clears `lp` and `bcn`. -/
theorem lp_idem (r : Regs) (h : r.lp = 0) :
    slotSet r ⟨.lp, "lp", 0, "bcn", 15, 1⟩ (slotGet r ⟨.lp, "lp", 0, "bcn", 15, 1⟩) = r := by
  show (if r.lp != 0 then ({ r with lp := 0, bcn := 0 } : Regs) else r) = r
  rw [h]; rfl

/-! ## the layouts of the eighteen words a `RegName` can name -/

theorem layout_ar0 : layoutOf "ar0" = [⟨.rw, "arstep", 1, "", 0, 3⟩, ⟨.rw, "aroffset", 1, "", 3, 2⟩, ⟨.rw, "arstep", 0, "", 5, 3⟩, ⟨.rw, "aroffset", 0, "", 8, 2⟩, ⟨.rw, "arrn", 1, "", 10, 3⟩, ⟨.rw, "arrn", 0, "", 13, 3⟩] := by decide +kernel
theorem mem_ar0 : ("ar0", layoutOf "ar0") ∈ Regs.Golden.layouts := by decide +kernel

theorem layout_ar1 : layoutOf "ar1" = [⟨.rw, "arstep", 3, "", 0, 3⟩, ⟨.rw, "aroffset", 3, "", 3, 2⟩, ⟨.rw, "arstep", 2, "", 5, 3⟩, ⟨.rw, "aroffset", 2, "", 8, 2⟩, ⟨.rw, "arrn", 3, "", 10, 3⟩, ⟨.rw, "arrn", 2, "", 13, 3⟩] := by decide +kernel
theorem mem_ar1 : ("ar1", layoutOf "ar1") ∈ Regs.Golden.layouts := by decide +kernel

theorem layout_arp0 : layoutOf "arp0" = [⟨.rw, "arpstepi", 0, "", 0, 3⟩, ⟨.rw, "arpoffseti", 0, "", 3, 2⟩, ⟨.rw, "arpstepj", 0, "", 5, 3⟩, ⟨.rw, "arpoffsetj", 0, "", 8, 2⟩, ⟨.rw, "arprni", 0, "", 10, 2⟩, ⟨.rw, "arprnj", 0, "", 13, 2⟩] := by decide +kernel
theorem mem_arp0 : ("arp0", layoutOf "arp0") ∈ Regs.Golden.layouts := by decide +kernel

theorem layout_arp1 : layoutOf "arp1" = [⟨.rw, "arpstepi", 1, "", 0, 3⟩, ⟨.rw, "arpoffseti", 1, "", 3, 2⟩, ⟨.rw, "arpstepj", 1, "", 5, 3⟩, ⟨.rw, "arpoffsetj", 1, "", 8, 2⟩, ⟨.rw, "arprni", 1, "", 10, 2⟩, ⟨.rw, "arprnj", 1, "", 13, 2⟩] := by decide +kernel
theorem mem_arp1 : ("arp1", layoutOf "arp1") ∈ Regs.Golden.layouts := by decide +kernel

theorem layout_arp2 : layoutOf "arp2" = [⟨.rw, "arpstepi", 2, "", 0, 3⟩, ⟨.rw, "arpoffseti", 2, "", 3, 2⟩, ⟨.rw, "arpstepj", 2, "", 5, 3⟩, ⟨.rw, "arpoffsetj", 2, "", 8, 2⟩, ⟨.rw, "arprni", 2, "", 10, 2⟩, ⟨.rw, "arprnj", 2, "", 13, 2⟩] := by decide +kernel
theorem mem_arp2 : ("arp2", layoutOf "arp2") ∈ Regs.Golden.layouts := by decide +kernel

theorem layout_arp3 : layoutOf "arp3" = [⟨.rw, "arpstepi", 3, "", 0, 3⟩, ⟨.rw, "arpoffseti", 3, "", 3, 2⟩, ⟨.rw, "arpstepj", 3, "", 5, 3⟩, ⟨.rw, "arpoffsetj", 3, "", 8, 2⟩, ⟨.rw, "arprni", 3, "", 10, 2⟩, ⟨.rw, "arprnj", 3, "", 13, 2⟩] := by decide +kernel
theorem mem_arp3 : ("arp3", layoutOf "arp3") ∈ Regs.Golden.layouts := by decide +kernel

theorem layout_stt0 : layoutOf "stt0" = [⟨.rw, "flm", 0, "", 0, 1⟩, ⟨.rw, "fvl", 0, "", 1, 1⟩, ⟨.rw, "fe", 0, "", 2, 1⟩, ⟨.rw, "fc0", 0, "", 3, 1⟩, ⟨.rw, "fv", 0, "", 4, 1⟩, ⟨.rw, "fn", 0, "", 5, 1⟩, ⟨.rw, "fm", 0, "", 6, 1⟩, ⟨.rw, "fz", 0, "", 7, 1⟩, ⟨.rw, "fc1", 0, "", 11, 1⟩] := by decide +kernel
theorem mem_stt0 : ("stt0", layoutOf "stt0") ∈ Regs.Golden.layouts := by decide +kernel

theorem layout_stt1 : layoutOf "stt1" = [⟨.rw, "fr", 0, "", 4, 1⟩, ⟨.ro, "iu", 0, "", 10, 1⟩, ⟨.ro, "iu", 1, "", 11, 1⟩, ⟨.rw, "pe", 0, "", 14, 1⟩, ⟨.rw, "pe", 1, "", 15, 1⟩] := by decide +kernel
theorem mem_stt1 : ("stt1", layoutOf "stt1") ∈ Regs.Golden.layouts := by decide +kernel

theorem layout_stt2 : layoutOf "stt2" = [⟨.ro, "ip", 0, "", 0, 1⟩, ⟨.ro, "ip", 1, "", 1, 1⟩, ⟨.ro, "ip", 2, "", 2, 1⟩, ⟨.ro, "ipv", 0, "", 3, 1⟩, ⟨.rw, "pcmhi", 0, "", 6, 2⟩, ⟨.ro, "bcn", 0, "", 12, 3⟩, ⟨.lp, "lp", 0, "bcn", 15, 1⟩] := by decide +kernel
theorem mem_stt2 : ("stt2", layoutOf "stt2") ∈ Regs.Golden.layouts := by decide +kernel

theorem layout_st0 : layoutOf "st0" = [⟨.rw, "sat", 0, "", 0, 1⟩, ⟨.rw, "ie", 0, "", 1, 1⟩, ⟨.rw, "im", 0, "", 2, 1⟩, ⟨.rw, "im", 1, "", 3, 1⟩, ⟨.rw, "fr", 0, "", 4, 1⟩, ⟨.double, "flm", 0, "fvl", 5, 1⟩, ⟨.rw, "fe", 0, "", 6, 1⟩, ⟨.rw, "fc0", 0, "", 7, 1⟩, ⟨.rw, "fv", 0, "", 8, 1⟩, ⟨.rw, "fn", 0, "", 9, 1⟩, ⟨.rw, "fm", 0, "", 10, 1⟩, ⟨.rw, "fz", 0, "", 11, 1⟩, ⟨.accE, "a", 0, "", 12, 4⟩] := by decide +kernel
theorem mem_st0 : ("st0", layoutOf "st0") ∈ Regs.Golden.layouts := by decide +kernel

theorem layout_st1 : layoutOf "st1" = [⟨.rw, "page", 0, "", 0, 8⟩, ⟨.rw, "ps", 0, "", 10, 2⟩, ⟨.accE, "a", 1, "", 12, 4⟩] := by decide +kernel
theorem mem_st1 : ("st1", layoutOf "st1") ∈ Regs.Golden.layouts := by decide +kernel

theorem layout_st2 : layoutOf "st2" = [⟨.rw, "m", 0, "", 0, 1⟩, ⟨.rw, "m", 1, "", 1, 1⟩, ⟨.rw, "m", 2, "", 2, 1⟩, ⟨.rw, "m", 3, "", 3, 1⟩, ⟨.rw, "m", 4, "", 4, 1⟩, ⟨.rw, "m", 5, "", 5, 1⟩, ⟨.rw, "im", 2, "", 6, 1⟩, ⟨.rw, "s", 0, "", 7, 1⟩, ⟨.rw, "ou", 0, "", 8, 1⟩, ⟨.rw, "ou", 1, "", 9, 1⟩, ⟨.ro, "iu", 0, "", 10, 1⟩, ⟨.ro, "iu", 1, "", 11, 1⟩, ⟨.ro, "ip", 2, "", 13, 1⟩, ⟨.ro, "ip", 0, "", 14, 1⟩, ⟨.ro, "ip", 1, "", 15, 1⟩] := by decide +kernel
theorem mem_st2 : ("st2", layoutOf "st2") ∈ Regs.Golden.layouts := by decide +kernel

theorem layout_cfgi : layoutOf "cfgi" = [⟨.rw, "stepi", 0, "", 0, 7⟩, ⟨.rw, "modi", 0, "", 7, 9⟩] := by decide +kernel
theorem mem_cfgi : ("cfgi", layoutOf "cfgi") ∈ Regs.Golden.layouts := by decide +kernel

theorem layout_cfgj : layoutOf "cfgj" = [⟨.rw, "stepj", 0, "", 0, 7⟩, ⟨.rw, "modj", 0, "", 7, 9⟩] := by decide +kernel
theorem mem_cfgj : ("cfgj", layoutOf "cfgj") ∈ Regs.Golden.layouts := by decide +kernel

theorem layout_mod0 : layoutOf "mod0" = [⟨.rw, "sat", 0, "", 0, 1⟩, ⟨.rw, "sata", 0, "", 1, 1⟩, ⟨.ro, "mod0_unk_const", 0, "", 2, 3⟩, ⟨.rw, "hwm", 0, "", 5, 2⟩, ⟨.rw, "s", 0, "", 7, 1⟩, ⟨.rw, "ou", 0, "", 8, 1⟩, ⟨.rw, "ou", 1, "", 9, 1⟩, ⟨.rw, "ps", 0, "", 10, 2⟩, ⟨.rw, "ps", 1, "", 13, 2⟩] := by decide +kernel
theorem mem_mod0 : ("mod0", layoutOf "mod0") ∈ Regs.Golden.layouts := by decide +kernel

theorem layout_mod1 : layoutOf "mod1" = [⟨.rw, "page", 0, "", 0, 8⟩, ⟨.rw, "stp16", 0, "", 12, 1⟩, ⟨.rw, "cmd", 0, "", 13, 1⟩, ⟨.rw, "epi", 0, "", 14, 1⟩, ⟨.rw, "epj", 0, "", 15, 1⟩] := by decide +kernel
theorem mem_mod1 : ("mod1", layoutOf "mod1") ∈ Regs.Golden.layouts := by decide +kernel

theorem layout_mod2 : layoutOf "mod2" = [⟨.rw, "m", 0, "", 0, 1⟩, ⟨.rw, "m", 1, "", 1, 1⟩, ⟨.rw, "m", 2, "", 2, 1⟩, ⟨.rw, "m", 3, "", 3, 1⟩, ⟨.rw, "m", 4, "", 4, 1⟩, ⟨.rw, "m", 5, "", 5, 1⟩, ⟨.rw, "m", 6, "", 6, 1⟩, ⟨.rw, "m", 7, "", 7, 1⟩, ⟨.rw, "br", 0, "", 8, 1⟩, ⟨.rw, "br", 1, "", 9, 1⟩, ⟨.rw, "br", 2, "", 10, 1⟩, ⟨.rw, "br", 3, "", 11, 1⟩, ⟨.rw, "br", 4, "", 12, 1⟩, ⟨.rw, "br", 5, "", 13, 1⟩, ⟨.rw, "br", 6, "", 14, 1⟩, ⟨.rw, "br", 7, "", 15, 1⟩] := by decide +kernel
theorem mem_mod2 : ("mod2", layoutOf "mod2") ∈ Regs.Golden.layouts := by decide +kernel

theorem layout_mod3 : layoutOf "mod3" = [⟨.rw, "nimc", 0, "", 0, 1⟩, ⟨.rw, "ic", 0, "", 1, 1⟩, ⟨.rw, "ic", 1, "", 2, 1⟩, ⟨.rw, "ic", 2, "", 3, 1⟩, ⟨.rw, "ou", 2, "", 4, 1⟩, ⟨.rw, "ou", 3, "", 5, 1⟩, ⟨.rw, "ou", 4, "", 6, 1⟩, ⟨.rw, "ie", 0, "", 7, 1⟩, ⟨.rw, "im", 0, "", 8, 1⟩, ⟨.rw, "im", 1, "", 9, 1⟩, ⟨.rw, "im", 2, "", 10, 1⟩, ⟨.rw, "imv", 0, "", 11, 1⟩, ⟨.rw, "ccnta", 0, "", 13, 1⟩, ⟨.rw, "cpc", 0, "", 14, 1⟩, ⟨.rw, "crep", 0, "", 15, 1⟩] := by decide +kernel
theorem mem_mod3 : ("mod3", layoutOf "mod3") ∈ Regs.Golden.layouts := by decide +kernel

/-! ## per-word idempotence -/

theorem idem_ar0 (r : Regs) : ∀ s ∈ layoutOf "ar0", slotSet r s (slotGet r s) = r := by
  simp only [layout_ar0, List.mem_cons, List.mem_nil_iff, or_false, forall_eq_or_imp, forall_eq]
  repeat' apply And.intro
  all_goals slot_idem

theorem idem_ar1 (r : Regs) : ∀ s ∈ layoutOf "ar1", slotSet r s (slotGet r s) = r := by
  simp only [layout_ar1, List.mem_cons, List.mem_nil_iff, or_false, forall_eq_or_imp, forall_eq]
  repeat' apply And.intro
  all_goals slot_idem

theorem idem_arp0 (r : Regs) : ∀ s ∈ layoutOf "arp0", slotSet r s (slotGet r s) = r := by
  simp only [layout_arp0, List.mem_cons, List.mem_nil_iff, or_false, forall_eq_or_imp, forall_eq]
  repeat' apply And.intro
  all_goals slot_idem

theorem idem_arp1 (r : Regs) : ∀ s ∈ layoutOf "arp1", slotSet r s (slotGet r s) = r := by
  simp only [layout_arp1, List.mem_cons, List.mem_nil_iff, or_false, forall_eq_or_imp, forall_eq]
  repeat' apply And.intro
  all_goals slot_idem

theorem idem_arp2 (r : Regs) : ∀ s ∈ layoutOf "arp2", slotSet r s (slotGet r s) = r := by
  simp only [layout_arp2, List.mem_cons, List.mem_nil_iff, or_false, forall_eq_or_imp, forall_eq]
  repeat' apply And.intro
  all_goals slot_idem

theorem idem_arp3 (r : Regs) : ∀ s ∈ layoutOf "arp3", slotSet r s (slotGet r s) = r := by
  simp only [layout_arp3, List.mem_cons, List.mem_nil_iff, or_false, forall_eq_or_imp, forall_eq]
  repeat' apply And.intro
  all_goals slot_idem

theorem idem_stt0 (r : Regs) : ∀ s ∈ layoutOf "stt0", slotSet r s (slotGet r s) = r := by
  simp only [layout_stt0, List.mem_cons, List.mem_nil_iff, or_false, forall_eq_or_imp, forall_eq]
  repeat' apply And.intro
  all_goals slot_idem

theorem idem_stt1 (r : Regs) : ∀ s ∈ layoutOf "stt1", slotSet r s (slotGet r s) = r := by
  simp only [layout_stt1, List.mem_cons, List.mem_nil_iff, or_false, forall_eq_or_imp, forall_eq]
  repeat' apply And.intro
  all_goals slot_idem

theorem idem_st2 (r : Regs) : ∀ s ∈ layoutOf "st2", slotSet r s (slotGet r s) = r := by
  simp only [layout_st2, List.mem_cons, List.mem_nil_iff, or_false, forall_eq_or_imp, forall_eq]
  repeat' apply And.intro
  all_goals slot_idem

theorem idem_cfgi (r : Regs) : ∀ s ∈ layoutOf "cfgi", slotSet r s (slotGet r s) = r := by
  simp only [layout_cfgi, List.mem_cons, List.mem_nil_iff, or_false, forall_eq_or_imp, forall_eq]
  repeat' apply And.intro
  all_goals slot_idem

theorem idem_cfgj (r : Regs) : ∀ s ∈ layoutOf "cfgj", slotSet r s (slotGet r s) = r := by
  simp only [layout_cfgj, List.mem_cons, List.mem_nil_iff, or_false, forall_eq_or_imp, forall_eq]
  repeat' apply And.intro
  all_goals slot_idem

theorem idem_mod0 (r : Regs) : ∀ s ∈ layoutOf "mod0", slotSet r s (slotGet r s) = r := by
  simp only [layout_mod0, List.mem_cons, List.mem_nil_iff, or_false, forall_eq_or_imp, forall_eq]
  repeat' apply And.intro
  all_goals slot_idem

theorem idem_mod1 (r : Regs) : ∀ s ∈ layoutOf "mod1", slotSet r s (slotGet r s) = r := by
  simp only [layout_mod1, List.mem_cons, List.mem_nil_iff, or_false, forall_eq_or_imp, forall_eq]
  repeat' apply And.intro
  all_goals slot_idem

theorem idem_mod2 (r : Regs) : ∀ s ∈ layoutOf "mod2", slotSet r s (slotGet r s) = r := by
  simp only [layout_mod2, List.mem_cons, List.mem_nil_iff, or_false, forall_eq_or_imp, forall_eq]
  repeat' apply And.intro
  all_goals slot_idem

theorem idem_mod3 (r : Regs) : ∀ s ∈ layoutOf "mod3", slotSet r s (slotGet r s) = r := by
  simp only [layout_mod3, List.mem_cons, List.mem_nil_iff, or_false, forall_eq_or_imp, forall_eq]
  repeat' apply And.intro
  all_goals slot_idem

theorem idem_st0 (r : Regs) (h1 : r.flm = r.fvl) (h2 : accENorm r.a[0] = r.a[0]) :
    ∀ s ∈ layoutOf "st0", slotSet r s (slotGet r s) = r := by
  simp only [layout_st0, List.mem_cons, List.mem_nil_iff, or_false, forall_eq_or_imp, forall_eq]
  repeat' apply And.intro
  all_goals first | slot_idem | exact double_idem r h1 | exact accE_idem0 r h2

theorem idem_st1 (r : Regs) (h2 : accENorm r.a[1] = r.a[1]) :
    ∀ s ∈ layoutOf "st1", slotSet r s (slotGet r s) = r := by
  simp only [layout_st1, List.mem_cons, List.mem_nil_iff, or_false, forall_eq_or_imp, forall_eq]
  repeat' apply And.intro
  all_goals first | slot_idem | exact accE_idem1 r h2

theorem idem_stt2 (r : Regs) (h : r.lp = 0) :
    ∀ s ∈ layoutOf "stt2", slotSet r s (slotGet r s) = r := by
  simp only [layout_stt2, List.mem_cons, List.mem_nil_iff, or_false, forall_eq_or_imp, forall_eq]
  repeat' apply And.intro
  all_goals first | slot_idem | exact lp_idem r h

/-! ## the master statement -/

/-- The words a `RegName` can name. -/
def pseudoWords : List String :=
  ["ar0", "ar1", "arp0", "arp1", "arp2", "arp3", "stt0", "stt1", "stt2", "st0", "st1", "st2",
   "cfgi", "cfgj", "mod0", "mod1", "mod2", "mod3"]

/-- The word-specific side conditions (the documented exceptions). -/
structure StatusSide (w : String) (r : Regs) : Prop where
  st0 : w = "st0" → r.flm = r.fvl ∧ accENorm r.a[0] = r.a[0]
  st1 : w = "st1" → accENorm r.a[1] = r.a[1]
  stt2 : w = "stt2" → r.lp = 0

/-- **Writing a status / config / `ar` / `arp` word back with the value just read is the identity
on the register file**, for all eighteen words, under the width invariant and the side
conditions. -/
theorem status_set_get (w : String) (hw : w ∈ pseudoWords) (r : Regs)
    (hf : WordFits r (layoutOf w)) (hs : StatusSide w r) :
    wordSet (layoutOf w) r (wordGet (layoutOf w) r) = r := by
  simp only [pseudoWords, List.mem_cons, List.mem_nil_iff, or_false] at hw
  rcases hw with rfl | rfl | rfl | rfl | rfl | rfl | rfl | rfl | rfl | rfl | rfl | rfl | rfl | rfl | rfl | rfl | rfl | rfl

  · exact wordSet_wordGet r ("ar0", layoutOf "ar0") mem_ar0 hf (idem_ar0 r)
  · exact wordSet_wordGet r ("ar1", layoutOf "ar1") mem_ar1 hf (idem_ar1 r)
  · exact wordSet_wordGet r ("arp0", layoutOf "arp0") mem_arp0 hf (idem_arp0 r)
  · exact wordSet_wordGet r ("arp1", layoutOf "arp1") mem_arp1 hf (idem_arp1 r)
  · exact wordSet_wordGet r ("arp2", layoutOf "arp2") mem_arp2 hf (idem_arp2 r)
  · exact wordSet_wordGet r ("arp3", layoutOf "arp3") mem_arp3 hf (idem_arp3 r)
  · exact wordSet_wordGet r ("stt0", layoutOf "stt0") mem_stt0 hf (idem_stt0 r)
  · exact wordSet_wordGet r ("stt1", layoutOf "stt1") mem_stt1 hf (idem_stt1 r)
  · exact wordSet_wordGet r ("stt2", layoutOf "stt2") mem_stt2 hf (idem_stt2 r (hs.stt2 rfl))
  · exact wordSet_wordGet r ("st0", layoutOf "st0") mem_st0 hf (idem_st0 r (hs.st0 rfl).1 (hs.st0 rfl).2)
  · exact wordSet_wordGet r ("st1", layoutOf "st1") mem_st1 hf (idem_st1 r (hs.st1 rfl))
  · exact wordSet_wordGet r ("st2", layoutOf "st2") mem_st2 hf (idem_st2 r)
  · exact wordSet_wordGet r ("cfgi", layoutOf "cfgi") mem_cfgi hf (idem_cfgi r)
  · exact wordSet_wordGet r ("cfgj", layoutOf "cfgj") mem_cfgj hf (idem_cfgj r)
  · exact wordSet_wordGet r ("mod0", layoutOf "mod0") mem_mod0 hf (idem_mod0 r)
  · exact wordSet_wordGet r ("mod1", layoutOf "mod1") mem_mod1 hf (idem_mod1 r)
  · exact wordSet_wordGet r ("mod2", layoutOf "mod2") mem_mod2 hf (idem_mod2 r)
  · exact wordSet_wordGet r ("mod3", layoutOf "mod3") mem_mod3 hf (idem_mod3 r)

end Teakra
