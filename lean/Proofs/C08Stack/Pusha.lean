import Proofs.C08Stack.Multi
import Proofs.C08Stack.CallRet
/-!
# C08 (stack part 7) — `pusha ax|bx ; popa ab`, `push px ; pop px`, `push abe ; pop abe`
-/
namespace Teakra
open Teakra Exec ExecLemmas Interp Sys RegName

/-! ## `pusha` / `popa` -/

/-- The body shared by `pusha_Ax` and `pusha_Bx`. -/
def pushaBody (n : RegName) : Exec Unit := do
  let value : U32 := ((← getAndSatAcc n) &&& 0xFFFFFFFF).setWidth 32
  let h : U16 := (value >>> 16).setWidth 16
  let l : U16 := (value &&& 0xFFFF).setWidth 16
  pushWord l
  pushWord h

theorem pusha_Ax_eq (a : Nat) : Exec.pusha_Ax a = pushaBody (Ax.name a) := rfl
theorem pusha_Bx_eq (a : Nat) : Exec.pusha_Bx a = pushaBody (Bx.name a) := rfl

/-- The low / high word of the low 32 bits of a 64-bit value. -/
def lowWord (v : U64) : U16 := ((v.setWidth 32 : U32) &&& 0xFFFF).setWidth 16
def highWord (v : U64) : U16 := ((v.setWidth 32 : U32) >>> 16).setWidth 16

theorem popa_value (v : U64) :
    Alu.signExtend 32 ((((highWord v).setWidth 64 : U64) <<< 16) ||| (lowWord v).setWidth 64) =
      Alu.signExtend 32 v := by
  unfold highWord lowWord
  rw [join16_64, signExtend32_setWidth]
  rfl

/-- **`pusha` then `popa` on the same accumulator**, closed form.  Let `(v, r₁)` be the result of
`GetAndSatAcc` (`v` = the accumulator, saturated to 32 bits when `sat = 0`; `r₁` = the registers
with `flm := 1` if that saturation happened).  After the pair: the accumulator is
`SignExtend<32>(v)`, the flags `fz fm fe fn` are those of that value, `sp` and every other register
are as in `r₁`, the two stack slots hold the low and the high word of `v`. -/
theorem pusha_popa (n : RegName) (j : Nat) (isB : Bool) (i : Fin 2)
    (hn : accIndex n = some (isB, i)) (hm : accIndex (Ab.name j) = some (isB, i))
    (c : Core) (a1 a2 : U32)
    (h1 : OrdinaryAt c.bus (c.regs.sp - 1) a1) (h2 : OrdinaryAt c.bus (c.regs.sp - 2) a2) :
    (do pushaBody n; Exec.popa_Ab j : Exec Unit).run c =
      .ok ((),
        { afterPushPop2 { c with regs := (satRead c.regs (accOf c.regs isB i)).2 } a1 a2
            (lowWord (satRead c.regs (accOf c.regs isB i)).1) (highWord (satRead c.regs (accOf c.regs isB i)).1) with
          regs := setAccAndFlagPure isB i (Alu.signExtend 32 (satRead c.regs (accOf c.regs isB i)).1)
                    (satRead c.regs (accOf c.regs isB i)).2 }) := by
  generalize hsr : satRead c.regs (accOf c.regs isB i) = sr
  have hsp : sr.2.sp = c.regs.sp := by rw [← hsr]; exact satRead_sp _ _
  unfold pushaBody Exec.popa_Ab
  simp only [bind_assoc]
  rw [run_bind, getAndSatAcc_run n isB i hn, hsr]
  simp only [except_ok_bind]
  have h1' : OrdinaryAt ({ c with regs := sr.2 } : Core).bus (({ c with regs := sr.2 } : Core).regs.sp - 1) a1 := by
    show OrdinaryAt c.bus (sr.2.sp - 1) a1
    rw [hsp]; exact h1
  have h2' : OrdinaryAt ({ c with regs := sr.2 } : Core).bus (({ c with regs := sr.2 } : Core).regs.sp - 2) a2 := by
    show OrdinaryAt c.bus (sr.2.sp - 2) a2
    rw [hsp]; exact h2
  have key := push2_pop2 ({ c with regs := sr.2 } : Core) (lowWord sr.1) (highWord sr.1) a1 a2
    (fun h l => setAccAndFlag (Ab.name j)
      (Alu.signExtend 32 (((h.setWidth 64 : U64) <<< 16) ||| l.setWidth 64))) h1' h2'
  simp only [bind_assoc] at key
  have e : ((sr.1 &&& 0xFFFFFFFF).setWidth 32 : U32) = sr.1.setWidth 32 := low32_setWidth _
  rw [e]
  refine key.trans ?_
  rw [setAccAndFlag_run (Ab.name j) isB i hm, popa_value]
  rfl

/-- The index pairs: `pusha a0|a1 ; popa a0|a1` is `pusha_Ax i ; popa_Ab (i + 2)`,
`pusha b0|b1 ; popa b0|b1` is `pusha_Bx i ; popa_Ab i`. -/
theorem accIndex_Ax (i : Fin 2) : accIndex (Ax.name i.val) = some (false, i) := by
  rcases fin2_cases i with rfl | rfl <;> rfl
theorem accIndex_Bx (i : Fin 2) : accIndex (Bx.name i.val) = some (true, i) := by
  rcases fin2_cases i with rfl | rfl <;> rfl
theorem accIndex_Ab_a (i : Fin 2) : accIndex (Ab.name (i.val + 2)) = some (false, i) := by
  rcases fin2_cases i with rfl | rfl <;> rfl
theorem accIndex_Ab_b (i : Fin 2) : accIndex (Ab.name i.val) = some (true, i) := by
  rcases fin2_cases i with rfl | rfl <;> rfl

private theorem set_self64 (v : Vector U64 2) (i : Fin 2) : v.set i v[i] = v := by
  apply Vector.ext; intro j hj
  simp only [Vector.getElem_set]
  split
  · subst_vars; rfl
  · rfl

theorem setAccOf_accOf (r : Regs) (isB : Bool) (i : Fin 2) : setAccOf r isB i (accOf r isB i) = r := by
  cases isB
  · simp only [setAccOf, accOf, Bool.false_eq_true, if_false]
    have := set_self64 r.a i
    simp only [Fin.getElem_fin] at this ⊢
    rw [this]
  · simp only [setAccOf, accOf, if_true]
    have := set_self64 r.b i
    simp only [Fin.getElem_fin] at this ⊢
    rw [this]

/-- The registers after a successful accumulator round trip: only the four value flags are
recomputed from the accumulator. -/
def withAccFlags (r : Regs) (v : U64) : Regs :=
  { r with fz := (Alu.accFlags v).fz, fm := (Alu.accFlags v).fm, fe := (Alu.accFlags v).fe,
           fn := (Alu.accFlags v).fn }

theorem setAccAndFlagPure_self (r : Regs) (isB : Bool) (i : Fin 2) :
    setAccAndFlagPure isB i (accOf r isB i) r = withAccFlags r (accOf r isB i) := by
  cases isB
  · simp only [setAccAndFlagPure, withAccFlags, setAccOf, accOf, Bool.false_eq_true, if_false]
    have := set_self64 r.a i
    simp only [Fin.getElem_fin] at this ⊢
    rw [this]
  · simp only [setAccAndFlagPure, withAccFlags, setAccOf, accOf, if_true]
    have := set_self64 r.b i
    simp only [Fin.getElem_fin] at this ⊢
    rw [this]

/-- **The whole accumulator is restored** exactly when it is the sign extension of its low 32 bits
(then saturation is irrelevant): the only registers that change are the flags `fz fm fe fn`, which
take the values `SetAccFlag` computes from the accumulator. -/
theorem pusha_popa_restores (n : RegName) (j : Nat) (isB : Bool) (i : Fin 2)
    (hn : accIndex n = some (isB, i)) (hm : accIndex (Ab.name j) = some (isB, i))
    (c : Core) (a1 a2 : U32)
    (h1 : OrdinaryAt c.bus (c.regs.sp - 1) a1) (h2 : OrdinaryAt c.bus (c.regs.sp - 2) a2)
    (hfit : accOf c.regs isB i = Alu.signExtend 32 (accOf c.regs isB i)) :
    (do pushaBody n; Exec.popa_Ab j : Exec Unit).run c =
      .ok ((),
        { afterPushPop2 c a1 a2 (lowWord (accOf c.regs isB i)) (highWord (accOf c.regs isB i)) with
          regs := withAccFlags c.regs (accOf c.regs isB i) }) := by
  rw [pusha_popa n j isB i hn hm c a1 a2 h1 h2, satRead_fits _ _ hfit, ← hfit, setAccAndFlagPure_self]

/-- **What is restored in general with saturation disabled** (`sat ≠ 0`): the low 32 bits; bits
32..63 become copies of bit 31 (`SignExtend<32>`), so a 40-bit accumulator whose extension is not
the sign of bit 31 is *not* restored by the two-word pair alone (`push abe`/`pop abe` handle the
extension). -/
theorem pusha_popa_sat_off (n : RegName) (j : Nat) (isB : Bool) (i : Fin 2)
    (hn : accIndex n = some (isB, i)) (hm : accIndex (Ab.name j) = some (isB, i))
    (c : Core) (a1 a2 : U32)
    (h1 : OrdinaryAt c.bus (c.regs.sp - 1) a1) (h2 : OrdinaryAt c.bus (c.regs.sp - 2) a2)
    (hsat : c.regs.sat ≠ 0) :
    (do pushaBody n; Exec.popa_Ab j : Exec Unit).run c =
      .ok ((),
        { afterPushPop2 c a1 a2 (lowWord (accOf c.regs isB i)) (highWord (accOf c.regs isB i)) with
          regs := setAccAndFlagPure isB i (Alu.signExtend 32 (accOf c.regs isB i)) c.regs }) := by
  rw [pusha_popa n j isB i hn hm c a1 a2 h1 h2, satRead_off _ _ hsat]

theorem accOf_setAccAndFlagPure (r : Regs) (isB : Bool) (i : Fin 2) (v : U64) :
    accOf (setAccAndFlagPure isB i v r) isB i = v := by
  cases isB <;> simp [setAccAndFlagPure, setAccOf, accOf]

/-- Negative witness: with saturation disabled, an accumulator with a non-sign extension
(`0x01_0000_0000`) comes back as `0`. -/
theorem pusha_popa_ext_counterexample :
    accOf (setAccAndFlagPure false 0 (Alu.signExtend 32 (0x100000000 : U64)) {}) false 0 ≠ (0x100000000 : U64) := by
  rw [accOf_setAccAndFlagPure]; decide

/-- Negative witness: with saturation *enabled* (`sat = 0`), an accumulator that does not fit 32
bits is pushed saturated: `0x01_0000_0001` comes back as `0x7FFF_FFFF` and `flm` is set. -/
theorem pusha_popa_sat_counterexample :
    let r : Regs := { a := #v[0x100000001, 0], sat := 0 }
    (satRead r (accOf r false 0)).1 = 0x7FFFFFFF ∧ (satRead r (accOf r false 0)).2.flm = 1 := by
  decide

end Teakra
