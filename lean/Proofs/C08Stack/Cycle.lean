import Proofs.C08Stack.CallRet
import Proofs.C07.Cycle
/-!
# C08 (stack part 14) — the `pc` a call pushes is the address of the instruction after the call

In the loop body (`cycle = latch phase ; execPhase ; interruptCheck`, `Proofs/C07/Cycle.lean`) the
opcode fetch — and for the two-word `call addr18` the expansion fetch — increments `pc` *before*
the handler runs.  So the handler of a call at address `pc₀` starts with `pc = pc₀ + 1` (one-word
forms) or `pc₀ + 2` (`call addr18`), and that is the value `PushPC` stores and `ret` restores.
-/
namespace Teakra
open Teakra Exec ExecLemmas Interp Sys

set_option linter.unusedSimpArgs false

theorem bind_unit_pure (x : Exec Unit) (c : Core) :
    (do let __r ← x; (fun _ => (pure () : Exec Unit)) __r).run c = x.run c := by
  rw [run_bind]
  cases x.run c with
  | error e => rfl
  | ok r => cases r; rfl

/-- The part of the loop body after the opcode fetch, for a one-word instruction, outside a
`rep` and outside a hardware loop: just the handler. -/
theorem restK_plain (p : InstrPat) (opcode : U16) (c : Core) (hexp : p.expanded = false)
    (hrep : c.regs.rep = false) (hlp : c.regs.lp = 0) :
    (restK (some p) opcode (pure ())).run c = (dispatch p.idx (p.extract opcode.toNat 0)).run c := by
  unfold restK
  rw [run_have]
  simp -zeta only [hexp, Bool.false_eq_true, if_false]
  simp -zeta only [run_bind, run_pure, except_ok_bind, run_getRegs, hrep]
  simp -zeta only [Bool.false_eq_true, if_false]
  rw [run_have]
  simp -zeta only [run_bind, run_getRegs, except_ok_bind, hlp, bne_self_eq_false, Bool.false_eq_true, if_false]
  rw [run_have]
  exact bind_unit_pure _ c

/-- The same for a two-word instruction: the expansion word is fetched (one more `pc++`, one more
logged access) and handed to the operand extraction. -/
theorem restK_expanded (p : InstrPat) (opcode e : U16) (accs : List Access) (c : Core)
    (hexp : p.expanded = true)
    (hread : c.bus.programRead (fetchAddress c.regs) = .ok (e, accs))
    (hrep : c.regs.rep = false) (hlp : c.regs.lp = 0) :
    (restK (some p) opcode (pure ())).run c =
      (dispatch p.idx (p.extract opcode.toNat e.toNat)).run
        { c with regs := bumpPc c.regs, log := accs.reverse ++ c.log } := by
  unfold restK
  rw [run_have]
  simp -zeta only [hexp, if_true]
  simp -zeta only [run_bind, fetchAddr_run, except_ok_bind]
  rw [programRead_run { c with regs := bumpPc c.regs } _ e accs hread]
  simp -zeta only [run_bind, run_pure, except_ok_bind, run_getRegs, bumpPc_rep, hrep]
  simp -zeta only [Bool.false_eq_true, if_false]
  rw [run_have]
  simp -zeta only [run_bind, run_getRegs, except_ok_bind, bumpPc_lp, hlp, bne_self_eq_false,
    Bool.false_eq_true, if_false]
  rw [run_have]
  exact bind_unit_pure _ _

/-! ## the instruction part of the loop body on a one-word / two-word instruction -/

theorem execPhase_plain (c : Core) (w : U16) (accs : List Access) (p : InstrPat)
    (hread : c.bus.programRead (fetchAddress c.regs) = .ok (w, accs))
    (hdec : decoderArray.getD w.toNat none = some p) (hexp : p.expanded = false)
    (hrep : c.regs.rep = false) (hlp : c.regs.lp = 0) :
    execPhase.run c =
      (dispatch p.idx (p.extract w.toNat 0)).run
        { c with regs := bumpPc c.regs, log := accs.reverse ++ c.log } := by
  unfold execPhase
  simp -zeta only [run_bind, fetchAddr_run, except_ok_bind]
  rw [programRead_run { c with regs := bumpPc c.regs } _ w accs hread]
  rw [except_ok_bind, fst_mk, snd_mk, hdec]
  exact restK_plain p w _ hexp hrep hlp

theorem execPhase_expanded (c : Core) (w e : U16) (accs accs2 : List Access) (p : InstrPat)
    (hread : c.bus.programRead (fetchAddress c.regs) = .ok (w, accs))
    (hread2 : c.bus.programRead (fetchAddress (bumpPc c.regs)) = .ok (e, accs2))
    (hdec : decoderArray.getD w.toNat none = some p) (hexp : p.expanded = true)
    (hrep : c.regs.rep = false) (hlp : c.regs.lp = 0) :
    execPhase.run c =
      (dispatch p.idx (p.extract w.toNat e.toNat)).run
        { c with regs := bumpPc (bumpPc c.regs), log := accs2.reverse ++ (accs.reverse ++ c.log) } := by
  unfold execPhase
  simp -zeta only [run_bind, fetchAddr_run, except_ok_bind]
  rw [programRead_run { c with regs := bumpPc c.regs } _ w accs hread]
  rw [except_ok_bind, fst_mk, snd_mk, hdec]
  exact restK_expanded p w e accs2 _ hexp hread2 hrep hlp

/-! ## the decoder on `call addr18, cond` (`0x41C0 | hi << 4 | cond`) and `ret cond` (`0x4580 | cond`) -/

theorem decode_call_fin : ∀ k : Fin 64,
    (decodeInstr (0x41C0 + k.val)).map patView = some (107, true, [(16, 16), (4, 2), (0, 4)]) := by
  decide +kernel

theorem decode_ret_fin : ∀ k : Fin 16,
    (decodeInstr (0x4580 + k.val)).map patView = some (113, false, [(0, 4)]) := by
  decide +kernel

/-- A word `0x41C0 + k`, `k < 64`, decodes to table entry 107 (`call Address18_16, Address18_2,
Cond`), two words, operands: the second word, bits 4..5, bits 0..3. -/
theorem decode_call (k : Fin 64) :
    ∃ p, decoderArray.getD (0x41C0 + k.val) none = some p ∧ p.idx = 107 ∧ p.expanded = true ∧
      ∀ e, p.extract (0x41C0 + k.val) e = [e % 2 ^ 16, k.val / 16, k.val % 16] := by
  have hf := decode_call_fin k
  rw [decoderArray_getD _ (by omega)]
  cases hd : decodeInstr (0x41C0 + k.val) with
  | none => rw [hd] at hf; cases hf
  | some p =>
    rw [hd] at hf
    simp only [Option.map_some, patView, Option.some.injEq, Prod.mk.injEq] at hf
    refine ⟨p, rfl, hf.1, hf.2.1, fun e => ?_⟩
    simp only [InstrPat.extract, hf.2.2, List.map_cons, List.map_nil]
    have e1 : ((0x41C0 + k.val) >>> 4) % 2 ^ 2 = k.val / 16 := by rw [Nat.shiftRight_eq_div_pow]; omega
    simp [e1]
    omega

theorem decode_ret (k : Fin 16) :
    ∃ p, decoderArray.getD (0x4580 + k.val) none = some p ∧ p.idx = 113 ∧ p.expanded = false ∧
      p.extract (0x4580 + k.val) 0 = [k.val] := by
  have hf := decode_ret_fin k
  rw [decoderArray_getD _ (by omega)]
  cases hd : decodeInstr (0x4580 + k.val) with
  | none => rw [hd] at hf; cases hf
  | some p =>
    rw [hd] at hf
    simp only [Option.map_some, patView, Option.some.injEq, Prod.mk.injEq] at hf
    refine ⟨p, rfl, hf.1, hf.2.1, ?_⟩
    simp only [InstrPat.extract, hf.2.2, List.map_cons, List.map_nil]
    simp
    omega

theorem dispatch_107 (o : List Nat) :
    dispatch 107 o = Exec.call_Address18_16_Address18_2_Cond (o.getD 0 0) (o.getD 1 0) (o.getD 2 0) := rfl
theorem dispatch_113 (o : List Nat) : dispatch 113 o = Exec.ret_Cond (o.getD 0 0) := rfl

theorem condVal_bumpPc2 (cv : CondValue) (r : Regs) : condVal cv (bumpPc (bumpPc r)) = condVal cv r := by
  rw [condVal_bumpPc, condVal_bumpPc]

/-- **A `call addr18, cond` executed by the loop body.**  The call sits at `pc₀ = c.regs.pc`
(words `0x41C0 + k` and `e`), no `rep` and no hardware loop is active, its condition holds, and the
two stack slots below `sp` are ordinary memory.  Then the instruction part of the loop body ends in
the state `calledAt` of a call made with `pc = pc₀ + 2`: the stack holds the frame of
**`pc₀ + 2`, the address of the instruction after the two-word call**, pushed from the caller's
`sp`; `pc` is the target `e | (k / 16) << 16`. -/
theorem execPhase_call (c : Core) (k : Fin 64) (e : U16) (accs accs2 : List Access) (a1 a2 : U32)
    (hread : c.bus.programRead (fetchAddress c.regs) = .ok (BitVec.ofNat 16 (0x41C0 + k.val), accs))
    (hread2 : c.bus.programRead (fetchAddress (bumpPc c.regs)) = .ok (e, accs2))
    (hrep : c.regs.rep = false) (hlp : c.regs.lp = 0)
    (hcond : condVal (Cond.name (k.val % 16)) c.regs = true)
    (h1 : OrdinaryAt c.bus (c.regs.sp - 1) a1) (h2 : OrdinaryAt c.bus (c.regs.sp - 2) a2) :
    execPhase.run c = .ok ((),
      calledAt { c with regs := bumpPc (bumpPc c.regs), log := accs2.reverse ++ (accs.reverse ++ c.log) }
        a1 a2 (address18 e.toNat (k.val / 16))) ∧
    ReturnFrame
      (calledAt { c with regs := bumpPc (bumpPc c.regs), log := accs2.reverse ++ (accs.reverse ++ c.log) }
        a1 a2 (address18 e.toNat (k.val / 16)))
      c.regs.sp (c.regs.pc + 1 + 1) a1 a2 := by
  obtain ⟨p, hdec, hidx, hexp, hext⟩ := decode_call k
  have hw : (BitVec.ofNat 16 (0x41C0 + k.val) : U16).toNat = 0x41C0 + k.val := by
    simp; omega
  have hmod : e.toNat % 2 ^ 16 = e.toNat := Nat.mod_eq_of_lt e.isLt
  constructor
  · rw [execPhase_expanded c _ e accs accs2 p hread hread2 (by rw [hw]; exact hdec) hexp hrep hlp,
      hw, hext, hidx, dispatch_107]
    simp only [List.getD_cons_zero, List.getD_cons_succ, hmod]
    rw [call_run, if_pos (by show condVal _ (bumpPc (bumpPc c.regs)) = true; rw [condVal_bumpPc2]; exact hcond)]
    exact callTo_ordinary _ a1 a2 _ h1 h2
  · exact (calledAt_frame { c with regs := bumpPc (bumpPc c.regs), log := accs2.reverse ++ (accs.reverse ++ c.log) }
      a1 a2 _ h1 h2).1

/-- **A `ret cond` executed by the loop body on a return frame**: the next instruction fetched is
the one at the pushed address, with the caller's `sp`. -/
theorem execPhase_ret (c : Core) (k : Fin 16) (accs : List Access) (sp : U16) (pc a1 a2 : U32)
    (hread : c.bus.programRead (fetchAddress c.regs) = .ok (BitVec.ofNat 16 (0x4580 + k.val), accs))
    (hrep : c.regs.rep = false) (hlp : c.regs.lp = 0)
    (hcond : condVal (Cond.name k.val) c.regs = true)
    (hfr : ReturnFrame c sp pc a1 a2) (hpc : pc.toNat < 0x40000) :
    execPhase.run c = .ok ((),
      poppedPC { c with regs := bumpPc c.regs, log := accs.reverse ++ c.log } sp pc a1 a2) := by
  obtain ⟨p, hdec, hidx, hexp, hext⟩ := decode_ret k
  have hw : (BitVec.ofNat 16 (0x4580 + k.val) : U16).toNat = 0x4580 + k.val := by
    simp; omega
  rw [execPhase_plain c _ accs p hread (by rw [hw]; exact hdec) hexp hrep hlp, hw, hext, hidx, dispatch_113]
  simp only [List.getD_cons_zero]
  have hfr' : ReturnFrame ({ c with regs := bumpPc c.regs, log := accs.reverse ++ c.log } : Core) sp pc a1 a2 :=
    hfr.of_eq rfl rfl rfl rfl rfl
  exact ret_frame k.val _ sp pc a1 a2 hfr' hpc (by show condVal _ (bumpPc c.regs) = true; rw [condVal_bumpPc]; exact hcond)

end Teakra
