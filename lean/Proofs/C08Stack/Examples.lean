import Proofs.C08Stack.Interrupt
import Proofs.C08Stack.StatusPush
import Proofs.C08Stack.PHigh
import Proofs.C08Stack.Cycle
/-!
# C08 (stack part 15) — non-vacuity: the hypotheses of the main theorems hold in concrete states

The reset MIU (`page_mode = 0`, `z_page = 0`, MMIO window at `0x8000`), `sp = 0x1000`: the stack
slots `0x0FFF`, `0x0FFE` are the memory words `0x20FFF`, `0x20FFE`.
-/
namespace Teakra
open Teakra Exec ExecLemmas Interp Sys RegName

/-- A concrete machine: reset peripherals, `sp = 0x1000`, `pc = 0x1234`, given register tweaks. -/
def exCore (r : Regs) : Core := { regs := { r with sp := 0x1000, pc := 0x1234 } }

theorem ord_reset_FFF : OrdinaryAt ({} : Bus) 0x0FFF 0x20FFF := ⟨by decide, rfl, by decide⟩
theorem ord_reset_FFE : OrdinaryAt ({} : Bus) 0x0FFE 0x20FFE := ⟨by decide, rfl, by decide⟩

theorem ex_ord1 (r : Regs) : OrdinaryAt (exCore r).bus ((exCore r).regs.sp - 1) 0x20FFF := by
  show OrdinaryAt ({} : Bus) (0x1000 - 1) 0x20FFF
  rw [show (0x1000 - 1 : U16) = 0x0FFF by decide]; exact ord_reset_FFF
theorem ex_ord2 (r : Regs) : OrdinaryAt (exCore r).bus ((exCore r).regs.sp - 2) 0x20FFE := by
  show OrdinaryAt ({} : Bus) (0x1000 - 2) 0x20FFE
  rw [show (0x1000 - 2 : U16) = 0x0FFE by decide]; exact ord_reset_FFE

/-- 1. one word -/
example : (do pushWord 0xBEEF; popWord : Exec U16).run (exCore {}) =
    .ok (0xBEEF, afterPushPop (exCore {}) 0x20FFF 0xBEEF) :=
  push_pop_word (exCore {}) 0xBEEF 0x20FFF (ex_ord1 {})

/-- 2. `PushPC ; PopPC`, both word orders (`cpc = 1` is the reset value) -/
example : (do pushPC; popPC : Exec Unit).run (exCore { cpc := 1 }) =
    .ok ((), afterPushPopPC (exCore { cpc := 1 }) 0x20FFF 0x20FFE) :=
  pushPC_popPC _ _ _ (ex_ord1 _) (ex_ord2 _) (by decide)
example : (do pushPC; popPC : Exec Unit).run (exCore { cpc := 0 }) =
    .ok ((), afterPushPopPC (exCore { cpc := 0 }) 0x20FFF 0x20FFE) :=
  pushPC_popPC _ _ _ (ex_ord1 _) (ex_ord2 _) (by decide)
/-- the words on the stack differ between the two orders -/
example : pcWords (exCore { cpc := 1 }).regs = (0, 0x1234) ∧ pcWords (exCore { cpc := 0 }).regs = (0x1234, 0) := by
  decide

/-- 3. every call form, then `ret` (condition `true`), `rets 3`, `reti` -/
example (f : CallForm) (hf : f.taken (exCore {}).regs = true) :
    (do f.exec; Exec.ret_Cond 0 : Exec Unit).run (exCore {}) =
      .ok ((), afterPushPopPC (exCore {}) 0x20FFF 0x20FFE) :=
  call_ret_roundtrip f 0 _ _ _ (ex_ord1 _) (ex_ord2 _) (by decide) hf rfl
example : (CallForm.call 0x4321 1 0).taken (exCore {}).regs = true ∧
    (CallForm.callr 5 0).taken (exCore {}).regs = true ∧
    (CallForm.callaAxl 0).taken (exCore {}).regs = true ∧ (CallForm.callaAx 1).taken (exCore {}).regs = true := by
  decide
example : (do (CallForm.call 0x4321 1 0).exec; Exec.rets_Imm8 3 : Exec Unit).run (exCore {}) =
    .ok ((), { afterPushPopPC (exCore {}) 0x20FFF 0x20FFE with
               regs := { (exCore {}).regs with sp := (exCore {}).regs.sp + imm16 3 } }) :=
  call_rets_roundtrip _ 3 _ _ _ (ex_ord1 _) (ex_ord2 _) (by decide) rfl
/-- a conditional call / return whose condition (`eq`, with `fz = 0`) fails does nothing -/
example : (Exec.call_Address18_16_Address18_2_Cond 0x4321 1 1).run (exCore {}) = .ok ((), exCore {}) :=
  call_cond_false _ _ _ _ (by decide)
example : (Exec.ret_Cond 1).run (exCore {}) = .ok ((), exCore {}) := ret_cond_false _ _ (by decide)

/-- 4. interrupt entry of line 1 followed by `reti`, no context switch -/
example : (do enterLine 1; Exec.reti_Cond 0 : Exec Unit).run (exCore { ie := 1, ip := #v[0, 1, 0] }) =
    .ok ((), { afterPushPopPC (exCore { ie := 1, ip := #v[0, 1, 0] }) 0x20FFF 0x20FFE with
               regs := resumedRegs 1 (exCore { ie := 1, ip := #v[0, 1, 0] }).regs, idle := false }) :=
  entry_reti_roundtrip 1 0 _ _ _ (ex_ord1 _) (ex_ord2 _) (by decide) (by decide) rfl

/-- 5. interrupt entry with context switch (`ic[1] = 1`) followed by `retic` -/
example : (do enterLine 1; Exec.retic_Cond 0 : Exec Unit).run
      (exCore { ie := 1, ip := #v[0, 1, 0], ic := #v[0, 1, 0] }) =
    .ok ((), { afterPushPopPC (exCore { ie := 1, ip := #v[0, 1, 0], ic := #v[0, 1, 0] }) 0x20FFF 0x20FFE with
               regs := ctxApply savedSlots (resumedRegs 1 (exCore { ie := 1, ip := #v[0, 1, 0], ic := #v[0, 1, 0] }).regs),
               idle := false }) :=
  entry_retic_roundtrip 1 0 _ _ _ (ex_ord1 _) (ex_ord2 _) (by decide) (by decide) rfl

/-- 6. plain registers: `push r3 ; pop r3`, `push sp ; pop sp`, `push lc ; pop lc` inside a loop -/
example : (do Exec.push_Register 3; Exec.pop_Register 3 : Exec Unit).run (exCore { r := #v[1, 2, 3, 4, 5, 6, 7, 8] }) =
    .ok ((), afterPushPop (exCore { r := #v[1, 2, 3, 4, 5, 6, 7, 8] }) 0x20FFF 4) :=
  push_pop_register 3 rfl _ _ (ex_ord1 _)
example : (do Exec.push_Register 13; Exec.pop_Register 13 : Exec Unit).run (exCore {}) =
    .ok ((), afterPushPop (exCore {}) 0x20FFF 0x1000) :=
  push_pop_register 13 rfl _ _ (ex_ord1 _)
example : (do Exec.push_Register 30; Exec.pop_Register 30 : Exec Unit).run (exCore { lp := 1, bcn := 2 }) =
    .ok ((), afterPushPop (exCore { lp := 1, bcn := 2 }) 0x20FFF 0) :=
  push_pop_register 30 rfl _ _ (ex_ord1 _)

/-- 7. status words: `push st0 ; pop st0`, `push mod0 ; pop mod0`, `push stt2 ; pop stt2` -/
theorem ex_fits (w : String) (hw : w ∈ pseudoWords) : WordFits (exCore {}).regs (layoutOf w) := by
  revert w; decide
example : (do Exec.push_Register 8; Exec.pop_Register 8 : Exec Unit).run (exCore {}) =
    .ok ((), afterPushPop (exCore {}) 0x20FFF (wordGet (layoutOf "st0") (exCore {}).regs)) :=
  push_pop_status_register 8 "st0" rfl _ _ (ex_ord1 _) (ex_fits _ (by decide))
    ⟨fun _ => (by decide), fun h => absurd h (by decide), fun h => absurd h (by decide)⟩
example : (do Exec.push_ArArpSttMod 12; Exec.pop_ArArpSttMod 12 : Exec Unit).run (exCore {}) =
    .ok ((), afterPushPop (exCore {}) 0x20FFF (wordGet (layoutOf "mod0") (exCore {}).regs)) :=
  push_pop_status_arArpSttMod 12 "mod0" rfl _ _ (ex_ord1 _) (ex_fits _ (by decide))
    ⟨fun h => absurd h (by decide), fun h => absurd h (by decide), fun h => absurd h (by decide)⟩
example : (do Exec.push_ArArpSttMod 10; Exec.pop_ArArpSttMod 10 : Exec Unit).run (exCore {}) =
    .ok ((), afterPushPop (exCore {}) 0x20FFF (wordGet (layoutOf "stt2") (exCore {}).regs)) :=
  push_pop_status_arArpSttMod 10 "stt2" rfl _ _ (ex_ord1 _) (ex_fits _ (by decide))
    ⟨fun h => absurd h (by decide), fun h => absurd h (by decide), fun _ => rfl⟩

/-- 8. `pusha a0 ; popa a0` (operands `Ax 0`, `Ab 2`) with a 32-bit value -/
example : (do Exec.pusha_Ax 0; Exec.popa_Ab 2 : Exec Unit).run (exCore { a := #v[0xFFFFFFFF80001234, 0] }) =
    .ok ((), { afterPushPop2 (exCore { a := #v[0xFFFFFFFF80001234, 0] }) 0x20FFF 0x20FFE 0x1234 0x8000 with
               regs := withAccFlags (exCore { a := #v[0xFFFFFFFF80001234, 0] }).regs 0xFFFFFFFF80001234 }) :=
  pusha_popa_restores (Ax.name 0) 2 false 0 rfl rfl _ _ _ (ex_ord1 _) (ex_ord2 _) (by decide)

/-- 9. `push p1 ; pop p1` -/
example : (do Exec.push_Px 1; Exec.pop_Px 1 : Exec Unit).run (exCore { p := #v[0, 0x87654321], pe := #v[0, 1] }) =
    .ok ((), afterPushPop2 (exCore { p := #v[0, 0x87654321], pe := #v[0, 1] }) 0x20FFF 0x20FFE 0x4321 0x8765) :=
  push_px_pop_px_restores 1 _ _ _ (ex_ord1 _) (ex_ord2 _) (by decide) (by decide)

/-- 10. `push b1e ; pop b1e`, saturation disabled -/
example : (do Exec.push_Abe 1; Exec.pop_Abe 1 : Exec Unit).run (exCore { b := #v[0, 0x7F12345678], sat := 1 }) =
    .ok ((), { afterPushPop (exCore { b := #v[0, 0x7F12345678], sat := 1 }) 0x20FFF 0x7F with
               regs := withAccFlags (exCore { b := #v[0, 0x7F12345678], sat := 1 }).regs 0x7F12345678 }) :=
  push_abe_pop_abe_restores 1 true 1 rfl _ _ (ex_ord1 _) (by decide) (by decide)

/-- 11. `push a1h ; pop a1h` (operand 29), saturation disabled: the part and `sp` come back -/
example : ∃ c', (do Exec.push_Register 29; Exec.pop_Register 29 : Exec Unit).run
      (exCore { a := #v[0, 0x12345678], sat := 1 }) = .ok ((), c') ∧
    readPart .high (accOf c'.regs false 1) = readPart .high (accOf (exCore { a := #v[0, 0x12345678], sat := 1 }).regs false 1) ∧
    c'.regs.sp = 0x1000 := by
  obtain ⟨c', h, hv, hsp, _⟩ := push_pop_acc_part_value 29 .high false 1 rfl
    (exCore { a := #v[0, 0x12345678], sat := 1 }) _ (ex_ord1 _) (by decide)
  exact ⟨c', h, hv, hsp⟩

/-- 12. a two-word `call 0x14321` at `pc₀ = 0x1234` executed by the loop body: the frame on the
stack is that of `pc₀ + 2`. -/
def exCallCore : Core :=
  { regs := { sp := 0x1000, pc := 0x1234 }
    bus := { mem := (({} : Mem).write 0x1234 0x41D0).write 0x1235 0x4321 } }

example :
    execPhase.run exCallCore = .ok ((),
      calledAt { exCallCore with regs := bumpPc (bumpPc exCallCore.regs),
                                 log := [⟨0x246A, false, 0⟩].reverse ++ ([⟨0x2468, false, 0⟩].reverse ++ exCallCore.log) }
        0x20FFF 0x20FFE (address18 0x4321 1)) ∧
    ReturnFrame
      (calledAt { exCallCore with regs := bumpPc (bumpPc exCallCore.regs),
                                  log := [⟨0x246A, false, 0⟩].reverse ++ ([⟨0x2468, false, 0⟩].reverse ++ exCallCore.log) }
        0x20FFF 0x20FFE (address18 0x4321 1))
      0x1000 (0x1234 + 1 + 1) 0x20FFF 0x20FFE := by
  have r1 : exCallCore.bus.programRead (fetchAddress exCallCore.regs) =
      .ok (BitVec.ofNat 16 (0x41C0 + (16 : Fin 64).val), [⟨0x2468, false, 0⟩]) := by
    have h := Bus.programRead_cell exCallCore.bus 0x1234 0x1234 (by decide)
    rw [show fetchAddress exCallCore.regs = 0x1234 by decide, h]
    show Except.ok ((((({} : Mem).write 0x1234 0x41D0).write 0x1235 0x4321).read 0x1234), _) = _
    rw [Bus.Mem.read_write, if_neg (by decide), Bus.Mem.read_write, if_pos rfl]
    rfl
  have r2 : exCallCore.bus.programRead (fetchAddress (bumpPc exCallCore.regs)) =
      .ok (0x4321, [⟨0x246A, false, 0⟩]) := by
    have h := Bus.programRead_cell exCallCore.bus 0x1235 0x1235 (by decide)
    rw [show fetchAddress (bumpPc exCallCore.regs) = 0x1235 by decide, h]
    show Except.ok ((((({} : Mem).write 0x1234 0x41D0).write 0x1235 0x4321).read 0x1235), _) = _
    rw [Bus.Mem.read_write, if_pos rfl]
    rfl
  exact execPhase_call exCallCore 16 0x4321 _ _ 0x20FFF 0x20FFE r1 r2 rfl rfl rfl
    ⟨by decide, rfl, by decide⟩ ⟨by decide, rfl, by decide⟩

end Teakra
