import Proofs.C08Stack.PxAbe
/-!
# C08 (stack part 9) — `push` / `pop` of accumulator parts through the `Register` operand

`RegToBus16(axl|axh|bxl|bxh, enable_sat_for_mov = true)` reads the part *after `GetAndSatAcc`*
(saturated unless `sat ≠ 0`); `RegToBus16(ax)` reads the low word without saturation.
`RegFromBus16` of any of them is `SatAndSetAccAndFlag(reg, value')` where `value'` is the word
zero-extended (`…l`), shifted to bits 16..31 and sign-extended (`…h`), or sign-extended from bit 15
(`ax`): **the whole accumulator is replaced**, not only the part, and `fz fm fe fn` are recomputed.
The values written always fit 32 bits, so the saturation of `SatAndSetAccAndFlag` (`sata`) never
triggers on this path.
-/
namespace Teakra
open Teakra Exec ExecLemmas Interp Sys RegName

set_option linter.unusedSimpArgs false

inductive AccPart where | low | high | full
  deriving DecidableEq, Repr

/-- The accumulator names of the `Register` operand (and `b0`, `b1`, reachable through `pop_Bx`). -/
def accPartOf : RegName → Option (AccPart × Bool × Fin 2)
  | a0l => some (.low, false, 0) | a1l => some (.low, false, 1)
  | b0l => some (.low, true, 0) | b1l => some (.low, true, 1)
  | a0h => some (.high, false, 0) | a1h => some (.high, false, 1)
  | b0h => some (.high, true, 0) | b1h => some (.high, true, 1)
  | a0 => some (.full, false, 0) | a1 => some (.full, false, 1)
  | b0 => some (.full, true, 0) | b1 => some (.full, true, 1)
  | _ => none

/-- The 16 bits `RegToBus16` takes from the (possibly saturated) accumulator value. -/
def readPart : AccPart → U64 → U16
  | .low, v => (v &&& 0xFFFF).setWidth 16
  | .high, v => ((v >>> 16) &&& 0xFFFF).setWidth 16
  | .full, v => (v &&& 0xFFFF).setWidth 16

/-- The 64-bit value `RegFromBus16` hands to `SatAndSetAccAndFlag`. -/
def busToAcc : AccPart → U16 → U64
  | .low, w => w.setWidth 64
  | .high, w => Alu.signExtend 32 (((w.setWidth 32 : U32) <<< 16).signExtend 64)
  | .full, w => Alu.signExtend 16 (w.setWidth 64)

theorem busToAcc_fits (k : AccPart) (w : U16) : busToAcc k w = Alu.signExtend 32 (busToAcc k w) := by
  cases k <;> simp only [busToAcc, Alu.signExtend] <;>
  · apply BitVec.eq_of_getLsbD_eq
    intro i hi
    simp only [BitVec.getLsbD_signExtend, BitVec.getLsbD_setWidth, BitVec.msb_eq_getLsbD_last,
      BitVec.getLsbD_shiftLeft]
    by_cases h32 : i < 32 <;> by_cases h16 : i < 16 <;> simp [hi, h32, h16]
    all_goals first | omega | exact BitVec.getLsbD_of_ge _ _ (by omega)

/-- **The part written is the part read back.** -/
theorem readPart_busToAcc (k : AccPart) (w : U16) : readPart k (busToAcc k w) = w := by
  cases k <;> simp only [busToAcc, readPart, Alu.signExtend] <;>
  · apply BitVec.eq_of_getLsbD_eq
    intro i hi
    simp only [BitVec.getLsbD_signExtend, BitVec.getLsbD_setWidth, BitVec.msb_eq_getLsbD_last,
      BitVec.getLsbD_shiftLeft, and_mask16_bit64, BitVec.getLsbD_ushiftRight]
    simp [hi, show i < 32 by omega, show i < 64 by omega, show 16 + i < 32 by omega, show 16 + i < 64 by omega]

theorem accIndex_of_part (n : RegName) (k : AccPart) (isB : Bool) (i : Fin 2)
    (h : accPartOf n = some (k, isB, i)) : accIndex n = some (isB, i) := by
  cases n <;> simp only [accPartOf, Option.some.injEq, Prod.mk.injEq, reduceCtorEq] at h <;>
    (obtain ⟨_, rfl, rfl⟩ := h; rfl)

/-- What `RegToBus16(reg, true)` reads: the saturating read for the parts, the plain read for the
whole accumulator. -/
def partRead (k : AccPart) (r : Regs) (acc : U64) : U64 × Regs :=
  match k with
  | .full => (acc, r)
  | _ => satRead r acc

theorem regToBus16_part (n : RegName) (k : AccPart) (isB : Bool) (i : Fin 2)
    (h : accPartOf n = some (k, isB, i)) (c : Core) :
    (regToBus16 n true).run c =
      .ok (readPart k (partRead k c.regs (accOf c.regs isB i)).1,
           { c with regs := (partRead k c.regs (accOf c.regs isB i)).2 }) := by
  have hi := accIndex_of_part n k isB i h
  cases n <;> simp only [accPartOf, Option.some.injEq, Prod.mk.injEq, reduceCtorEq] at h <;>
    obtain ⟨rfl, rfl, rfl⟩ := h
  all_goals first
    | (show (do return ((← getAndSatAcc _) &&& 0xFFFF).setWidth 16 : Exec U16).run c = _
       rw [run_bind, getAndSatAcc_run _ _ _ hi]; rfl)
    | (show (do return (((← getAndSatAcc _) >>> 16) &&& 0xFFFF).setWidth 16 : Exec U16).run c = _
       rw [run_bind, getAndSatAcc_run _ _ _ hi]; rfl)
    | (show (do return ((← getAcc _) &&& 0xFFFF).setWidth 16 : Exec U16).run c = _
       rw [run_bind, getAcc_run' _ _ _ hi]; rfl)

theorem saturate_fits (v : U64) (h : v = Alu.signExtend 32 v) : Alu.saturate v = (v, false) := by
  unfold Alu.saturate
  have : (v != Alu.signExtend 32 v) = false := by rw [← h]; simp
  simp only [this, Bool.false_eq_true, if_false]

/-- `SatAndSetAccAndFlag` of a value that fits 32 bits: `SetAccAndFlag`, whatever `sata`. -/
theorem satAndSetAccAndFlag_run_fits (n : RegName) (isB : Bool) (i : Fin 2)
    (hn : accIndex n = some (isB, i)) (v : U64) (hfit : v = Alu.signExtend 32 v) (c : Core) :
    (satAndSetAccAndFlag n v).run c = .ok ((), { c with regs := setAccAndFlagPure isB i v c.regs }) := by
  unfold satAndSetAccAndFlag setAccFlag
  rw [run_bind, run_modifyRegs, except_ok_bind, snd_mk, run_bind, run_getRegs, except_ok_bind]
  simp only [fst_mk, snd_mk]
  rw [run_have]
  by_cases hs : (c.regs.sata == 0) = true
  · simp only [hs, if_true]
    unfold saturateAcc
    rw [saturate_fits v hfit]
    simp only [Bool.false_eq_true, if_false, run_bind, run_pure, except_ok_bind, pure_bind]
    rw [setAcc_run' n isB i hn]
    rfl
  · simp only [hs, Bool.false_eq_true, if_false, run_pure, except_ok_bind, run_bind]
    rw [setAcc_run' n isB i hn]
    rfl

theorem regFromBus16_part (n : RegName) (k : AccPart) (isB : Bool) (i : Fin 2)
    (h : accPartOf n = some (k, isB, i)) (w : U16) (c : Core) :
    (regFromBus16 n w).run c =
      .ok ((), { c with regs := setAccAndFlagPure isB i (busToAcc k w) c.regs }) := by
  have hi := accIndex_of_part n k isB i h
  have key := satAndSetAccAndFlag_run_fits n isB i hi (busToAcc k w) (busToAcc_fits k w) c
  cases n <;> simp only [accPartOf, Option.some.injEq, Prod.mk.injEq, reduceCtorEq] at h <;>
    obtain ⟨rfl, rfl, rfl⟩ := h <;> exact key

theorem partRead_sp (k : AccPart) (r : Regs) (acc : U64) : (partRead k r acc).2.sp = r.sp := by
  cases k <;> first | rfl | exact satRead_sp r acc

/-- **`push part ; pop part`, closed form** (`Register` operand `a` naming `axl`, `axh`, `bxl`,
`bxh` or `ax`).  Let `(v, r₁)` be the saturating read (`GetAndSatAcc`; for `ax` the plain read) and
`w` the part of `v`.  After the pair: the accumulator is `busToAcc part w` — *only the part
survives*: for `…l` the high word and the extension are cleared, for `…h` the low word is cleared
and the extension is the sign of bit 31, for `ax` everything above bit 15 is the sign of bit 15 —,
`fz fm fe fn` are the flags of that value, `sp` and all other registers are as in `r₁`. -/
theorem push_pop_acc_part (a : Nat) (k : AccPart) (isB : Bool) (i : Fin 2)
    (h : accPartOf (Register.name a) = some (k, isB, i)) (c : Core) (conv : U32)
    (ho : OrdinaryAt c.bus (c.regs.sp - 1) conv) :
    (do Exec.push_Register a; Exec.pop_Register a : Exec Unit).run c =
      .ok ((),
        { afterPushPop { c with regs := (partRead k c.regs (accOf c.regs isB i)).2 } conv
            (readPart k (partRead k c.regs (accOf c.regs isB i)).1) with
          regs := setAccAndFlagPure isB i
            (busToAcc k (readPart k (partRead k c.regs (accOf c.regs isB i)).1))
            (partRead k c.regs (accOf c.regs isB i)).2 }) := by
  have hsp := partRead_sp k c.regs (accOf c.regs isB i)
  have ho' : OrdinaryAt ({ c with regs := (partRead k c.regs (accOf c.regs isB i)).2 } : Core).bus
      (({ c with regs := (partRead k c.regs (accOf c.regs isB i)).2 } : Core).regs.sp - 1) conv := by
    show OrdinaryAt c.bus ((partRead k c.regs (accOf c.regs isB i)).2.sp - 1) conv
    rw [hsp]; exact ho
  exact push_pop_of (regToBus16 (Register.name a) true) (regFromBus16 (Register.name a)) c _ _ conv
    (fun w r => setAccAndFlagPure isB i (busToAcc k w) r)
    (regToBus16_part _ k isB i h c) (fun w c' => regFromBus16_part _ k isB i h w c') ho'

/-- **With saturation on moves disabled (`sat ≠ 0`) the part and `sp` are restored**: reading the
same part again gives the word that was pushed, which is the part of the original accumulator. -/
theorem push_pop_acc_part_value (a : Nat) (k : AccPart) (isB : Bool) (i : Fin 2)
    (h : accPartOf (Register.name a) = some (k, isB, i)) (c : Core) (conv : U32)
    (ho : OrdinaryAt c.bus (c.regs.sp - 1) conv) (hsat : c.regs.sat ≠ 0) :
    ∃ c', (do Exec.push_Register a; Exec.pop_Register a : Exec Unit).run c = .ok ((), c') ∧
      readPart k (accOf c'.regs isB i) = readPart k (accOf c.regs isB i) ∧
      c'.regs.sp = c.regs.sp ∧
      c'.regs = setAccAndFlagPure isB i (busToAcc k (readPart k (accOf c.regs isB i))) c.regs := by
  have hp : partRead k c.regs (accOf c.regs isB i) = (accOf c.regs isB i, c.regs) := by
    cases k <;> first | rfl | exact satRead_off _ _ hsat
  refine ⟨_, push_pop_acc_part a k isB i h c conv ho, ?_, ?_, ?_⟩
  · show readPart k (accOf (setAccAndFlagPure isB i _ _) isB i) = _
    rw [accOf_setAccAndFlagPure, readPart_busToAcc, hp]
  · show (setAccAndFlagPure isB i _ _).sp = _
    rw [hp]; cases isB <;> rfl
  · show setAccAndFlagPure isB i _ _ = _
    rw [hp]

/-- The registers `pop` of an accumulator part changes: the accumulator and the four value flags;
nothing else. -/
theorem setAccAndFlagPure_frame (isB : Bool) (i : Fin 2) (v : U64) (r : Regs) :
    setAccOf (withAccFlags (setAccAndFlagPure isB i v r) (accOf r isB i)) isB i (accOf r isB i) =
      withAccFlags r (accOf r isB i) := by
  cases isB
  · simp only [setAccAndFlagPure, withAccFlags, setAccOf, accOf, Bool.false_eq_true, if_false]
    congr 1
    apply Vector.ext; intro j hj
    simp only [Vector.getElem_set, Fin.getElem_fin]
    split
    · subst_vars; rfl
    · rfl
  · simp only [setAccAndFlagPure, withAccFlags, setAccOf, accOf, if_true]
    congr 1
    apply Vector.ext; intro j hj
    simp only [Vector.getElem_set, Fin.getElem_fin]
    split
    · subst_vars; rfl
    · rfl

/-- **The whole accumulator is restored** exactly when it already has the shape `pop` produces
(`acc = busToAcc part (part of acc)`: for `…l`, `acc < 0x10000`; for `…h`, low word zero and
extension the sign of bit 31); then only the flags change. -/
theorem push_pop_acc_part_restores (a : Nat) (k : AccPart) (isB : Bool) (i : Fin 2)
    (h : accPartOf (Register.name a) = some (k, isB, i)) (c : Core) (conv : U32)
    (ho : OrdinaryAt c.bus (c.regs.sp - 1) conv)
    (hshape : busToAcc k (readPart k (accOf c.regs isB i)) = accOf c.regs isB i) :
    (do Exec.push_Register a; Exec.pop_Register a : Exec Unit).run c =
      .ok ((), { afterPushPop c conv (readPart k (accOf c.regs isB i)) with
                 regs := withAccFlags c.regs (accOf c.regs isB i) }) := by
  have hfit : accOf c.regs isB i = Alu.signExtend 32 (accOf c.regs isB i) := by
    rw [← hshape]; exact busToAcc_fits _ _
  have hp : partRead k c.regs (accOf c.regs isB i) = (accOf c.regs isB i, c.regs) := by
    cases k <;> first | rfl | exact satRead_fits _ _ hfit
  rw [push_pop_acc_part a k isB i h c conv ho, hp, hshape, setAccAndFlagPure_self]

/-- The operand values of this class. -/
theorem acc_operands :
    (List.range 32).filter (fun a => (accPartOf (Register.name a)).isSome) =
      [16, 17, 18, 19, 24, 25, 26, 27, 28, 29] := by decide

/-- Negative witnesses.
(1) `push a0l ; pop a0l` with `a0 = 0x1234_5678`, saturation disabled: `a0l` is restored but the
accumulator becomes `0x5678` — the high word is lost.
(2) With saturation enabled (`sat = 0`) and `a0 = 0x01_0000_0001` the word pushed for `a0l` is
`0xFFFF`, not `0x0001`: the part is not restored (hence "with saturation disabled"). -/
theorem push_pop_acc_part_counterexample :
    busToAcc .low (readPart .low (0x12345678 : U64)) = 0x5678 ∧
    (let r : Regs := { a := #v[0x100000001, 0], sat := 0 }
     readPart .low (partRead .low r (accOf r false 0)).1 = 0xFFFF ∧ readPart .low (accOf r false 0) = 1) := by
  decide

/-! ## `pop bx` (operand `Bx`, used as the pop of `push b0|b1` pushed through other forms) -/

theorem pop_Bx_run (j : Fin 2) (w : U16) (c : Core) :
    (regFromBus16 (Bx.name j.val) w).run c =
      .ok ((), { c with regs := setAccAndFlagPure true j (busToAcc .full w) c.regs }) := by
  rcases fin2_cases j with rfl | rfl
  · exact regFromBus16_part b0 .full true 0 rfl w c
  · exact regFromBus16_part b1 .full true 1 rfl w c

end Teakra
