import Proofs.C08Stack.StatusPush
/-!
# C08 (stack part 16) — `st0` and `st1` without their side conditions

`push st0 ; pop st0` (resp. `st1`) under the width invariant alone: the register file becomes the
*normal form* `st0Norm r` (`flm` and `fvl` both `flm | fvl`; bits 36..63 of `a0` copies of bit 35)
resp. `st1Norm r` (bits 36..63 of `a1` copies of bit 35), and the word itself reads back
unchanged — "restores that value" holds for the word even where the registers behind it change.
-/
namespace Teakra
open Teakra Exec ExecLemmas Interp Sys RegName
open Teakra.Regs (Slot)
set_option linter.unusedSimpArgs false

def st0Norm (r : Regs) : Regs :=
  { r with flm := r.flm ||| r.fvl, fvl := r.flm ||| r.fvl, a := r.a.set 0 (accENorm r.a[0]) }

def st1Norm (r : Regs) : Regs := { r with a := r.a.set 1 (accENorm r.a[1]) }

set_option maxHeartbeats 400000 in
/-- `Set<st0>(Get<st0>())` is the normal form. -/
theorem st0_set_get (r : Regs) (hf : WordFits r (layoutOf "st0")) :
    wordSet (layoutOf "st0") r (wordGet (layoutOf "st0") r) = st0Norm r := by
  have hv := fun s hs => wordGet_field r ("st0", layoutOf "st0") mem_st0 hf s hs
  unfold wordSet
  simp only [] at hv
  generalize wordGet (layoutOf "st0") r = v at hv ⊢
  simp only [layout_st0, List.mem_cons, List.mem_nil_iff, or_false, forall_eq_or_imp, forall_eq] at hv
  simp only [layout_st0, List.foldl_cons, List.foldl_nil]
  obtain ⟨h0, h1, h2, h3, h4, h5, h6, h7, h8, h9, h10, h11, h12⟩ := hv
  rw [h0, h1, h2, h3, h4, h5, h6, h7, h8, h9, h10, h11, h12]
  have i0 : slotSet r ⟨.rw, "sat", 0, "", 0, 1⟩ (slotGet r ⟨.rw, "sat", 0, "", 0, 1⟩) = r := rfl
  have i1 : slotSet r ⟨.rw, "ie", 0, "", 1, 1⟩ (slotGet r ⟨.rw, "ie", 0, "", 1, 1⟩) = r := rfl
  have i2 : slotSet r ⟨.rw, "im", 0, "", 2, 1⟩ (slotGet r ⟨.rw, "im", 0, "", 2, 1⟩) = r := setF_im r 0
  have i3 : slotSet r ⟨.rw, "im", 1, "", 3, 1⟩ (slotGet r ⟨.rw, "im", 1, "", 3, 1⟩) = r := setF_im r 1
  have i4 : slotSet r ⟨.rw, "fr", 0, "", 4, 1⟩ (slotGet r ⟨.rw, "fr", 0, "", 4, 1⟩) = r := rfl
  rw [i0, i1, i2, i3, i4]
  have g0 : r.a.toArray.getD 0 0 = r.a[0] := by simp [Array.getD]
  have hA : slotGet r ⟨.accE, "a", 0, "", 12, 4⟩ = (((r.a[0] >>> 32) &&& 0xF).setWidth 16 : U16) := by
    show (((r.a.toArray.getD 0 0 >>> 32) &&& 0xF).setWidth 16 : U16) = _
    rw [g0]
  rw [hA]
  clear i0 i1 i2 i3 i4 hA g0 h0 h1 h2 h3 h4 h5 h6 h7 h8 h9 h10 h11 h12 hf
  cases r
  rfl

/-- `Set<st1>(Get<st1>())` is the normal form. -/
theorem st1_set_get (r : Regs) (hf : WordFits r (layoutOf "st1")) :
    wordSet (layoutOf "st1") r (wordGet (layoutOf "st1") r) = st1Norm r := by
  have hv := fun s hs => wordGet_field r ("st1", layoutOf "st1") mem_st1 hf s hs
  unfold wordSet
  simp only [] at hv
  generalize wordGet (layoutOf "st1") r = v at hv ⊢
  simp only [layout_st1, List.mem_cons, List.mem_nil_iff, or_false, forall_eq_or_imp, forall_eq] at hv
  simp only [layout_st1, List.foldl_cons, List.foldl_nil]
  obtain ⟨h0, h1, h2⟩ := hv
  rw [h0, h1, h2]
  have i0 : slotSet r ⟨.rw, "page", 0, "", 0, 8⟩ (slotGet r ⟨.rw, "page", 0, "", 0, 8⟩) = r := rfl
  have i1 : slotSet r ⟨.rw, "ps", 0, "", 10, 2⟩ (slotGet r ⟨.rw, "ps", 0, "", 10, 2⟩) = r := setF_ps r 0
  rw [i0, i1]
  have g1 : r.a.toArray.getD 1 0 = r.a[1] := by simp [Array.getD]
  have hA : slotGet r ⟨.accE, "a", 1, "", 12, 4⟩ = (((r.a[1] >>> 32) &&& 0xF).setWidth 16 : U16) := by
    show (((r.a.toArray.getD 1 0 >>> 32) &&& 0xF).setWidth 16 : U16) = _
    rw [g1]
  rw [hA]
  clear i0 i1 hA g1 h0 h1 h2 hf
  cases r
  rfl

/-! ## the word reads the same on the normal form -/

private theorem and_mask4_bit64 (x : U64) (i : Nat) : (x &&& 0xF).getLsbD i = (x.getLsbD i && decide (i < 4)) := by
  rw [BitVec.getLsbD_and]
  congr 1
  by_cases h : i < 64
  · have : ∀ j : Fin 64, (BitVec.ofNat 64 15).getLsbD j.val = decide (j.val < 4) := by decide
    exact this ⟨i, h⟩
  · rw [BitVec.getLsbD_of_ge _ _ (by omega)]; simp; omega

private theorem and_mask4_bit64' (x : U64) (i : Nat) :
    (x &&& ((15 : Nat) : U64)).getLsbD i = (x.getLsbD i && decide (i < 4)) := by
  rw [BitVec.getLsbD_and]
  congr 1
  by_cases h : i < 64
  · have : ∀ j : Fin 64, (BitVec.ofNat 64 15).getLsbD j.val = decide (j.val < 4) := by decide
    exact this ⟨i, h⟩
  · rw [BitVec.getLsbD_of_ge _ _ (by omega)]; simp; omega

/-- Normalising keeps the nibble the word shows (and the low 32 bits). -/
theorem accENorm_nibble (a : U64) :
    ((((accENorm a) >>> 32) &&& 0xF).setWidth 16 : U16) = (((a >>> 32) &&& 0xF).setWidth 16 : U16) := by
  unfold accENorm Alu.signExtend32
  apply BitVec.eq_of_getLsbD_eq
  intro i hi
  simp only [BitVec.getLsbD_or, and_mask32_bit, and_mask32_bit', and_mask4_bit64, and_mask4_bit64',
    BitVec.getLsbD_shiftLeft, BitVec.getLsbD_setWidth, BitVec.getLsbD_signExtend, BitVec.getLsbD_ushiftRight,
    BitVec.msb_eq_getLsbD_last]
  by_cases h4 : i < 4
  · simp [hi, h4, show 32 + i < 64 by omega, show ¬ (32 + i < 32) by omega, show i < 32 by omega]
    intro _; omega
  · simp [hi, h4]

theorem accENorm_idem (a : U64) : accENorm (accENorm a) = accENorm a := by
  have hn := accENorm_nibble a
  have hl : accENorm a &&& 0xFFFFFFFF = a &&& 0xFFFFFFFF := by
    unfold accENorm
    apply BitVec.eq_of_getLsbD_eq
    intro i hi
    simp only [BitVec.getLsbD_or, and_mask32_bit, and_mask32_bit', BitVec.getLsbD_shiftLeft]
    by_cases h32 : i < 32
    · simp [h32]
    · simp [h32]
  show (accENorm a &&& 0xFFFFFFFF) ||| _ = (a &&& 0xFFFFFFFF) ||| _
  rw [hl, hn]

private theorem foldl_congr_mem' {α β : Type} (l : List α) (f g : β → α → β) (b : β)
    (h : ∀ a ∈ l, ∀ b, f b a = g b a) : l.foldl f b = l.foldl g b := by
  induction l generalizing b with
  | nil => rfl
  | cons a l ih =>
    simp only [List.foldl_cons]
    rw [h a List.mem_cons_self, ih _ (fun a' ha' => h a' (List.mem_cons_of_mem _ ha'))]

theorem wordGet_congr (slots : List Slot) (r r' : Regs) (h : ∀ s ∈ slots, slotGet r' s = slotGet r s) :
    wordGet slots r' = wordGet slots r := by
  unfold wordGet
  congr 1
  apply foldl_congr_mem'
  intro s hs acc
  rw [h s hs]

private theorem getD0_set0 (v : Vector U64 2) (x : U64) : (v.set 0 x).toArray.getD 0 0 = x := by
  simp [Array.getD]
private theorem getD1_set1 (v : Vector U64 2) (x : U64) : (v.set 1 x).toArray.getD 1 0 = x := by
  simp [Array.getD]

/-- **The word `st0` is restored** by `push st0 ; pop st0` (under the width invariant alone). -/
theorem st0_word_restored (r : Regs) : wordGet (layoutOf "st0") (st0Norm r) = wordGet (layoutOf "st0") r := by
  apply wordGet_congr
  simp only [layout_st0, List.mem_cons, List.mem_nil_iff, or_false, forall_eq_or_imp, forall_eq]
  have g0 : r.a.toArray.getD 0 0 = r.a[0] := by simp [Array.getD]
  refine ⟨rfl, rfl, rfl, rfl, rfl, ?_, rfl, rfl, rfl, rfl, rfl, rfl, ?_⟩
  · show (r.flm ||| r.fvl) ||| (r.flm ||| r.fvl) = r.flm ||| r.fvl
    rw [BitVec.or_self]
  · show ((((r.a.set 0 (accENorm r.a[0])).toArray.getD 0 0 >>> 32) &&& 0xF).setWidth 16 : U16) =
      (((r.a.toArray.getD 0 0 >>> 32) &&& 0xF).setWidth 16 : U16)
    rw [getD0_set0, g0, accENorm_nibble]

theorem st1_word_restored (r : Regs) : wordGet (layoutOf "st1") (st1Norm r) = wordGet (layoutOf "st1") r := by
  apply wordGet_congr
  simp only [layout_st1, List.mem_cons, List.mem_nil_iff, or_false, forall_eq_or_imp, forall_eq]
  have g1 : r.a.toArray.getD 1 0 = r.a[1] := by simp [Array.getD]
  refine ⟨rfl, rfl, ?_⟩
  show ((((r.a.set 1 (accENorm r.a[1])).toArray.getD 1 0 >>> 32) &&& 0xF).setWidth 16 : U16) =
    (((r.a.toArray.getD 1 0 >>> 32) &&& 0xF).setWidth 16 : U16)
  rw [getD1_set1, g1, accENorm_nibble]

/-- **`push st0 ; pop st0` under the width invariant alone** (`partial`: the registers become the
normal form; the word and `sp` are restored). -/
theorem push_pop_st0_partial (c : Core) (conv : U32) (ho : OrdinaryAt c.bus (c.regs.sp - 1) conv)
    (hf : WordFits c.regs (layoutOf "st0")) :
    ∃ c', (do Exec.push_Register 8; Exec.pop_Register 8 : Exec Unit).run c = .ok ((), c') ∧
      c'.regs = st0Norm c.regs ∧
      wordGet (layoutOf "st0") c'.regs = wordGet (layoutOf "st0") c.regs ∧ c'.regs.sp = c.regs.sp := by
  refine ⟨_, push_pop_pseudo_register 8 "st0" rfl c conv ho, ?_, ?_, ?_⟩
  · exact st0_set_get c.regs hf
  · show wordGet _ (wordSet _ _ _) = _
    rw [st0_set_get c.regs hf, st0_word_restored]
  · show (wordSet _ _ _).sp = _
    rw [st0_set_get c.regs hf]; rfl

theorem push_pop_st1_partial (c : Core) (conv : U32) (ho : OrdinaryAt c.bus (c.regs.sp - 1) conv)
    (hf : WordFits c.regs (layoutOf "st1")) :
    ∃ c', (do Exec.push_Register 9; Exec.pop_Register 9 : Exec Unit).run c = .ok ((), c') ∧
      c'.regs = st1Norm c.regs ∧
      wordGet (layoutOf "st1") c'.regs = wordGet (layoutOf "st1") c.regs ∧ c'.regs.sp = c.regs.sp := by
  refine ⟨_, push_pop_pseudo_register 9 "st1" rfl c conv ho, ?_, ?_, ?_⟩
  · exact st1_set_get c.regs hf
  · show wordGet _ (wordSet _ _ _) = _
    rw [st1_set_get c.regs hf, st1_word_restored]
  · show (wordSet _ _ _).sp = _
    rw [st1_set_get c.regs hf]; rfl

end Teakra
