import Proofs.C08Stack.PxAbe
/-!
# C08 (stack part 13) — `push p ; pop p` (the `Register` operand `p`: high word of the product `p0`)

`RegToBus16(p)` reads bits 16..31 of `ProductToBus40(p0)` (after the product shifter);
`RegFromBus16(p)` writes the high word of `p[0]` and sets `pe[0]` to the word's sign bit.
-/
namespace Teakra
open Teakra Exec ExecLemmas Interp Sys RegName

set_option linter.unusedSimpArgs false

/-- The word `push p` stores. -/
def pHighBus (r : Regs) : U16 := (((Alu.productToBus40 r.p[0] r.pe[0] r.ps[0]) >>> 16) &&& 0xFFFF).setWidth 16

/-- `RegFromBus16(p, w)` on the register file. -/
def pHighSet (w : U16) (r : Regs) : Regs :=
  { r with pe := r.pe.set 0 (Alu.b2u (w.toNat > 0x7FFF)),
           p := r.p.set 0 ((r.p[0] &&& 0xFFFF) ||| ((w.setWidth 32 : U32) <<< 16)) }

theorem regToBus16_p (sat : Bool) (c : Core) : (regToBus16 p sat).run c = .ok (pHighBus c.regs, c) := rfl
theorem regFromBus16_p (w : U16) (c : Core) :
    (regFromBus16 p w).run c = .ok ((), { c with regs := pHighSet w c.regs }) := rfl

/-- **`push p ; pop p`, closed form.** -/
theorem push_pop_p (c : Core) (conv : U32) (ho : OrdinaryAt c.bus (c.regs.sp - 1) conv) :
    (do Exec.push_Register 11; Exec.pop_Register 11 : Exec Unit).run c =
      .ok ((), { afterPushPop c conv (pHighBus c.regs) with regs := pHighSet (pHighBus c.regs) c.regs }) :=
  push_pop_of (regToBus16 p true) (regFromBus16 p) c c _ conv pHighSet (regToBus16_p true c)
    (fun w c' => regFromBus16_p w c') ho

private theorem and_mask16_bit32 (x : U32) (i : Nat) : (x &&& 0xFFFF).getLsbD i = (x.getLsbD i && decide (i < 16)) := by
  rw [BitVec.getLsbD_and]
  congr 1
  by_cases h : i < 32
  · have : ∀ j : Fin 32, (BitVec.ofNat 32 65535).getLsbD j.val = decide (j.val < 16) := by decide
    exact this ⟨i, h⟩
  · rw [BitVec.getLsbD_of_ge _ _ (by omega)]; simp; omega

private theorem and_mask16_bit32' (x : U32) (i : Nat) :
    (x &&& ((65535 : Nat) : U32)).getLsbD i = (x.getLsbD i && decide (i < 16)) := by
  rw [BitVec.getLsbD_and]
  congr 1
  by_cases h : i < 32
  · have : ∀ j : Fin 32, (BitVec.ofNat 32 65535).getLsbD j.val = decide (j.val < 16) := by decide
    exact this ⟨i, h⟩
  · rw [BitVec.getLsbD_of_ge _ _ (by omega)]; simp; omega

/-- With the shifter off, the word pushed is the high word of `p[0]` … -/
theorem pHighBus_noshift (r : Regs) (h : r.ps[0] = 0) : pHighBus r = (r.p[0] >>> 16).setWidth 16 := by
  unfold pHighBus Alu.productToBus40 Alu.signExtend
  rw [h]
  simp only [beq_self_eq_true, if_true]
  apply BitVec.eq_of_getLsbD_eq
  intro i hi
  simp only [BitVec.getLsbD_setWidth, and_mask16_bit64, BitVec.getLsbD_ushiftRight, BitVec.getLsbD_signExtend,
    BitVec.getLsbD_or, BitVec.getLsbD_shiftLeft]
  simp [hi, show 16 + i < 33 by omega, show 16 + i < 64 by omega, show 16 + i < 32 by omega]

/-- … and writing it back restores `p[0]`. -/
theorem p_high_back (x : U32) :
    (x &&& 0xFFFF) ||| ((((x >>> 16).setWidth 16 : U16).setWidth 32 : U32) <<< 16) = x := by
  apply BitVec.eq_of_getLsbD_eq
  intro i hi
  simp only [BitVec.getLsbD_or, and_mask16_bit32, and_mask16_bit32', BitVec.getLsbD_shiftLeft, BitVec.getLsbD_setWidth,
    BitVec.getLsbD_ushiftRight]
  by_cases h : i < 16
  · simp [h, hi]
  · have e : 16 + (i - 16) = i := by omega
    simp [h, hi, e, show i - 16 < 16 by omega]
    intro _; omega

/-- **With the product shifter off (`ps[0] = 0`) `push p ; pop p` restores `p[0]` and `sp`**;
`pe[0]` becomes bit 31 of `p[0]` (so it is restored exactly when it was that bit). -/
theorem push_pop_p_partial (c : Core) (conv : U32) (ho : OrdinaryAt c.bus (c.regs.sp - 1) conv)
    (hps : c.regs.ps[0] = 0) :
    ∃ c', (do Exec.push_Register 11; Exec.pop_Register 11 : Exec Unit).run c = .ok ((), c') ∧
      c'.regs.p = c.regs.p ∧ c'.regs.sp = c.regs.sp ∧
      c'.regs.pe = c.regs.pe.set 0 (Alu.b2u (((c.regs.p[0] >>> 16).setWidth 16 : U16).toNat > 0x7FFF)) := by
  refine ⟨_, push_pop_p c conv ho, ?_, rfl, ?_⟩
  · show c.regs.p.set 0 _ = c.regs.p
    rw [pHighBus_noshift _ hps, p_high_back]
    apply Vector.ext; intro j hj
    simp only [Vector.getElem_set]
    split
    · subst_vars; rfl
    · rfl
  · show c.regs.pe.set 0 _ = _
    rw [pHighBus_noshift _ hps]

/-- Negative witness: with the shifter on (`ps[0] = 1`, `>> 1`) and `p[0] = 0x0002_0000` the word
pushed is `0x0001` and `p[0]` comes back as `0x0001_0000`; reading `p` again gives `0x0000`, so not
even the 16-bit value is restored. -/
theorem push_pop_p_counterexample :
    let r : Regs := { p := #v[0x20000, 0], ps := #v[1, 0] }
    pHighBus r = 1 ∧ (pHighSet (pHighBus r) r).p[0] = 0x10000 ∧ pHighBus (pHighSet (pHighBus r) r) = 0 := by
  decide

end Teakra
