import Proofs.C08Stack.Status
/-!
# C08 (stack part 12) — `push word ; pop word` for the status / config / `ar` / `arp` words
-/
namespace Teakra
open Teakra Exec ExecLemmas Interp Sys RegName
open Teakra.Regs (Slot)

set_option linter.unusedSimpArgs false

theorem regToBus16_pseudo (n : RegName) (w : String) (h : pseudoName n = some w) (sat : Bool) (c : Core) :
    (regToBus16 n sat).run c = .ok (wordGet (layoutOf w) c.regs, c) := by
  cases n <;> cases h <;> rfl

theorem regFromBus16_pseudo (n : RegName) (w : String) (h : pseudoName n = some w) (v : U16) (c : Core) :
    (regFromBus16 n v).run c = .ok ((), { c with regs := wordSet (layoutOf w) c.regs v }) := by
  cases n <;> cases h <;> rfl

theorem pseudoName_mem (n : RegName) (w : String) (h : pseudoName n = some w) : w ∈ pseudoWords := by
  cases n <;> cases h <;> decide

/-- **`push word ; pop word`, closed form** (operand `Register`: `st0 st1 st2 cfgi cfgj`): the
registers afterwards are `Set<word>(Get<word>())` applied to the registers before; `sp` is
restored; the slot holds the word. -/
theorem push_pop_pseudo_register (a : Nat) (w : String) (h : pseudoName (Register.name a) = some w)
    (c : Core) (conv : U32) (ho : OrdinaryAt c.bus (c.regs.sp - 1) conv) :
    (do Exec.push_Register a; Exec.pop_Register a : Exec Unit).run c =
      .ok ((), { afterPushPop c conv (wordGet (layoutOf w) c.regs) with
                 regs := wordSet (layoutOf w) c.regs (wordGet (layoutOf w) c.regs) }) :=
  push_pop_of (regToBus16 (Register.name a) true) (regFromBus16 (Register.name a)) c c _ conv
    (fun v r => wordSet (layoutOf w) r v)
    (regToBus16_pseudo _ w h true c) (fun v c' => regFromBus16_pseudo _ w h v c') ho

/-- The same for the operand `ArArpSttMod`: `ar0 ar1 arp0..arp3 stt0..stt2 mod0..mod3`. -/
theorem push_pop_pseudo_arArpSttMod (a : Nat) (w : String) (h : pseudoName (ArArpSttMod.name a) = some w)
    (c : Core) (conv : U32) (ho : OrdinaryAt c.bus (c.regs.sp - 1) conv) :
    (do Exec.push_ArArpSttMod a; Exec.pop_ArArpSttMod a : Exec Unit).run c =
      .ok ((), { afterPushPop c conv (wordGet (layoutOf w) c.regs) with
                 regs := wordSet (layoutOf w) c.regs (wordGet (layoutOf w) c.regs) }) :=
  push_pop_of (regToBus16 (ArArpSttMod.name a)) (regFromBus16 (ArArpSttMod.name a)) c c _ conv
    (fun v r => wordSet (layoutOf w) r v)
    (regToBus16_pseudo _ w h false c) (fun v c' => regFromBus16_pseudo _ w h v c') ho

/-- **Status / config / `ar` / `arp` words are restored**: under the width invariant for the
members the word shows and the word's side condition (`stt2`: no hardware loop; `st0`: `flm = fvl`
and `a0` within 36 bits; `st1`: `a1` within 36 bits) the *whole register file* is as before. -/
theorem push_pop_status_register (a : Nat) (w : String) (h : pseudoName (Register.name a) = some w)
    (c : Core) (conv : U32) (ho : OrdinaryAt c.bus (c.regs.sp - 1) conv)
    (hf : WordFits c.regs (layoutOf w)) (hs : StatusSide w c.regs) :
    (do Exec.push_Register a; Exec.pop_Register a : Exec Unit).run c =
      .ok ((), afterPushPop c conv (wordGet (layoutOf w) c.regs)) := by
  rw [push_pop_pseudo_register a w h c conv ho, status_set_get w (pseudoName_mem _ w h) c.regs hf hs]
  rfl

theorem push_pop_status_arArpSttMod (a : Nat) (w : String) (h : pseudoName (ArArpSttMod.name a) = some w)
    (c : Core) (conv : U32) (ho : OrdinaryAt c.bus (c.regs.sp - 1) conv)
    (hf : WordFits c.regs (layoutOf w)) (hs : StatusSide w c.regs) :
    (do Exec.push_ArArpSttMod a; Exec.pop_ArArpSttMod a : Exec Unit).run c =
      .ok ((), afterPushPop c conv (wordGet (layoutOf w) c.regs)) := by
  rw [push_pop_pseudo_arArpSttMod a w h c conv ho, status_set_get w (pseudoName_mem _ w h) c.regs hf hs]
  rfl

/-- The operand values: `Register` 8, 9, 10, 14, 15 are `st0 st1 st2 cfgi cfgj`; `ArArpSttMod`
0..5, 8..10, 12..15 are `ar0 ar1 arp0..3 stt0..2 mod0..3` (6, 7, 11 are `undefine`). -/
theorem pseudo_operands :
    (List.range 32).filterMap (fun a => (pseudoName (Register.name a)).map (fun w => (a, w))) =
      [(8, "st0"), (9, "st1"), (10, "st2"), (14, "cfgi"), (15, "cfgj")] ∧
    (List.range 16).filterMap (fun a => (pseudoName (ArArpSttMod.name a)).map (fun w => (a, w))) =
      [(0, "ar0"), (1, "ar1"), (2, "arp0"), (3, "arp1"), (4, "arp2"), (5, "arp3"), (8, "stt0"), (9, "stt1"),
       (10, "stt2"), (12, "mod0"), (13, "mod1"), (14, "mod2"), (15, "mod3")] := by
  decide

/-! ## the side conditions, characterised -/

private theorem and_mask4_bit64 (x : U64) (i : Nat) : (x &&& 0xF).getLsbD i = (x.getLsbD i && decide (i < 4)) := by
  rw [BitVec.getLsbD_and]
  congr 1
  by_cases h : i < 64
  · have : ∀ j : Fin 64, (BitVec.ofNat 64 15).getLsbD j.val = decide (j.val < 4) := by decide
    exact this ⟨i, h⟩
  · rw [BitVec.getLsbD_of_ge _ _ (by omega)]; simp; omega

private theorem and_mask4_bit64' (x : U64) (i : Nat) :
    (x &&& ((15 : Nat) : U64)).getLsbD i = (x.getLsbD i && decide (i < 4)) := by
  rw [BitVec.getLsbD_and]
  congr 1
  by_cases h : i < 64
  · have : ∀ j : Fin 64, (BitVec.ofNat 64 15).getLsbD j.val = decide (j.val < 4) := by decide
    exact this ⟨i, h⟩
  · rw [BitVec.getLsbD_of_ge _ _ (by omega)]; simp; omega

/-- `accENorm a = a` holds when `a` is the sign extension of its low 36 bits. -/
theorem accENorm_of_signExtend36 (a : U64) (h : a = Alu.signExtend 36 a) : accENorm a = a := by
  have hb : ∀ i, 36 ≤ i → i < 64 → a.getLsbD i = a.getLsbD 35 := by
    intro i h1 h2
    have e := congrArg (fun x => x.getLsbD i) h
    simp only [Alu.signExtend, BitVec.getLsbD_signExtend, BitVec.getLsbD_setWidth, BitVec.msb_eq_getLsbD_last] at e
    rw [e]
    simp [h2, show ¬ i < 36 by omega]
  unfold accENorm Alu.signExtend32
  apply BitVec.eq_of_getLsbD_eq
  intro i hi
  simp only [BitVec.getLsbD_or, and_mask32_bit, and_mask32_bit', and_mask4_bit64, and_mask4_bit64',
    BitVec.getLsbD_shiftLeft, BitVec.getLsbD_setWidth, BitVec.getLsbD_signExtend, BitVec.getLsbD_ushiftRight,
    BitVec.msb_eq_getLsbD_last]
  by_cases h32 : i < 32
  · simp [h32, hi]
  · by_cases h36 : i < 36
    · have e : 32 + (i - 32) = i := by omega
      simp [h32, hi, e, show i - 32 < 32 by omega, show i - 32 < 4 by omega, show i - 32 < 16 by omega,
        show i - 32 < 64 by omega]
    · simp [h32, hi, show i - 32 < 32 by omega, show ¬ (i - 32 < 4) by omega, show i - 32 < 64 by omega]
      exact (hb i (by omega) hi).symm

/-- The reset state satisfies the width invariant for every word and every side condition (so the
hypotheses of `push_pop_status_*` are satisfiable). -/
theorem reset_status_ok :
    (∀ w ∈ pseudoWords, WordFits ({} : Regs) (layoutOf w)) ∧
    ({} : Regs).flm = ({} : Regs).fvl ∧ accENorm ({} : Regs).a[0] = ({} : Regs).a[0] ∧
    accENorm ({} : Regs).a[1] = ({} : Regs).a[1] ∧ ({} : Regs).lp = 0 := by
  decide

/-! ## negative witnesses: the documented exceptions are real -/

/-- `push st0 ; pop st0` with `flm = 1`, `fvl = 0`: bit 5 reads `flm | fvl = 1` and the write sets
both, so `fvl` becomes `1`. -/
theorem push_pop_st0_counterexample :
    let r : Regs := { flm := 1, fvl := 0 }
    WordFits r (layoutOf "st0") ∧ accENorm r.a[0] = r.a[0] ∧
    (wordSet (layoutOf "st0") r (wordGet (layoutOf "st0") r)).fvl = 1 := by
  decide

/-- `push st1 ; pop st1` with `a1 = 0x7F_0000_0000` (a valid 40-bit accumulator): the word carries
only bits 32..35, `Set` sign-extends that nibble, and `a1` becomes `0xFFFF_FFFF_0000_0000`. -/
theorem push_pop_st1_counterexample :
    let r : Regs := { a := #v[0, 0x7F00000000] }
    WordFits r (layoutOf "st1") ∧ SignExt40 r.a[1] ∧
    (wordSet (layoutOf "st1") r (wordGet (layoutOf "st1") r)).a[1] = 0xFFFFFFFF00000000 := by
  decide

/-- `push stt2 ; pop stt2` inside a hardware loop (`lp = 1`, `bcn = 3`): the loop flag is
write-one-to-clear, so the pair ends the loop (`lp = 0`, `bcn = 0`) — "no hardware loop active" is
a necessary side condition of the property. -/
theorem push_pop_stt2_counterexample :
    let r : Regs := { lp := 1, bcn := 3 }
    WordFits r (layoutOf "stt2") ∧
    (wordSet (layoutOf "stt2") r (wordGet (layoutOf "stt2") r)).lp = 0 ∧
    (wordSet (layoutOf "stt2") r (wordGet (layoutOf "stt2") r)).bcn = 0 := by
  decide

/-- Without the width invariant a member bleeds into its neighbour's bits (C20
`get_set_fails_without_WF`): with `iu[0] = 0x10` the word `stt1` shows bit 14 set although
`pe[0] = 0`, and popping it sets `pe[0] := 1`. -/
theorem push_pop_width_counterexample :
    let r : Regs := { iu := #v[0x10, 0] }
    (wordSet (layoutOf "stt1") r (wordGet (layoutOf "stt1") r)).pe[0] = 1 ∧ r.pe[0] = 0 := by
  decide

end Teakra
