import Proofs.C08Stack.Call
/-!
# C08 (stack part 3) — every call form followed by every return form

Call forms of the model (`TeakraModel/Exec/Control.lean`): `call addr18, cond`, `calla axl`,
`calla ax`, `callr rel7, cond`.  Return forms: `ret cond`, `rets imm8`, `reti cond`, `retic cond`
(`retd`, `retid`, `retidc` are `UNIMPLEMENTED`/`UNREACHABLE` in the C++ and abort in the model).

Each call is `PushPC` followed by an assignment of `pc`; `pc` at that point is what the loop body
left after the fetch(es), i.e. the address of the instruction after the call
(`Proofs/C08Stack/Cycle.lean`).
-/
namespace Teakra
open Teakra Exec ExecLemmas Interp Sys

/-- Conditions only look at flags and user inputs, never at `sp` or `pc`. -/
theorem condVal_sp_pc (cv : CondValue) (r : Regs) (sp : U16) (pc : U32) :
    condVal cv ({ r with sp := sp, pc := pc } : Regs) = condVal cv r := by
  cases cv <;> rfl

theorem condVal_sp (cv : CondValue) (r : Regs) (sp : U16) :
    condVal cv ({ r with sp := sp } : Regs) = condVal cv r := by
  cases cv <;> rfl

theorem condVal_pc (cv : CondValue) (r : Regs) (pc : U32) :
    condVal cv ({ r with pc := pc } : Regs) = condVal cv r := by
  cases cv <;> rfl

/-! ## closed forms of the call handlers -/

theorem address18_lt (lo hi : Nat) : (address18 lo hi).toNat < 0x40000 := by
  unfold address18
  simp
  omega

/-- A call: `PushPC`, then `pc := target`. -/
def callTo (target : U32) (c : Core) : Except Stop (Unit × Core) :=
  pushPC.run c >>= fun x => .ok ((), { x.2 with regs := { x.2.regs with pc := target } })

theorem pushPC_regs (c : Core) (x : Unit × Core) (h : pushPC.run c = .ok x) :
    x.2.regs = { c.regs with sp := c.regs.sp - 2 } := by
  rw [pushPC_run] at h
  cases h1 : c.busWrite (c.regs.sp - 1) (pcWords c.regs).1 with
  | error e => rw [h1] at h; cases h
  | ok c1 =>
    rw [h1] at h
    simp only [except_ok_bind] at h
    cases h2 : c1.busWrite (c.regs.sp - 2) (pcWords c.regs).2 with
    | error e => rw [h2] at h; cases h
    | ok c2 =>
      rw [h2] at h
      injection h with h; subst h; rfl

/-- `call addr18, cond`. -/
theorem call_run (lo hi cond : Nat) (c : Core) :
    (Exec.call_Address18_16_Address18_2_Cond lo hi cond).run c =
      if condVal (Cond.name cond) c.regs = true then callTo (address18 lo hi) c else .ok ((), c) := by
  unfold Exec.call_Address18_16_Address18_2_Cond callTo
  rw [run_bind, conditionPass_run, except_ok_bind, fst_mk, snd_mk]
  by_cases h : condVal (Cond.name cond) c.regs = true
  · simp only [h, if_true, run_bind, setPC, address18_lt, decide_true, run_assert_true, except_ok_bind,
      run_modifyRegs]
  · simp only [h]; rfl

/-- `callr rel7, cond`: the target is relative to the `pc` after the fetch; plain `u32` addition,
no `SetPC`. -/
theorem callr_run (addr cond : Nat) (c : Core) :
    (Exec.callr_RelAddr7_Cond addr cond).run c =
      if condVal (Cond.name cond) c.regs = true then callTo (c.regs.pc + relAddr7 addr) c
      else .ok ((), c) := by
  unfold Exec.callr_RelAddr7_Cond callTo
  rw [run_bind, conditionPass_run, except_ok_bind, fst_mk, snd_mk]
  by_cases h : condVal (Cond.name cond) c.regs = true
  · simp only [h, if_true, run_bind, run_modifyRegs]
    cases hp : pushPC.run c with
    | error e => rfl
    | ok x =>
      simp only [except_ok_bind]
      rw [pushPC_regs c x hp]
  · simp only [h]; rfl

theorem fin2_cases (i : Fin 2) : i = 0 ∨ i = 1 := by omega

theorem regToBus16_axl_run (i : Fin 2) (c : Core) :
    (regToBus16 (Axl.name i.val)).run c = .ok (((c.regs.a[i] &&& 0xFFFF).setWidth 16 : U16), c) := by
  rcases fin2_cases i with rfl | rfl <;> rfl

theorem getAcc_ax_run (i : Fin 2) (c : Core) :
    (getAcc (Ax.name i.val)).run c = .ok (c.regs.a[i], c) := by
  rcases fin2_cases i with rfl | rfl <;> rfl

theorem getAcc_bx_run (i : Fin 2) (c : Core) :
    (getAcc (Bx.name i.val)).run c = .ok (c.regs.b[i], c) := by
  rcases fin2_cases i with rfl | rfl <;> rfl

theorem setPC_run (pc : U32) (c : Core) (h : pc.toNat < 0x40000) :
    (setPC pc).run c = .ok ((), { c with regs := { c.regs with pc := pc } }) := by
  unfold setPC
  simp only [run_bind, h, decide_true, run_assert_true, except_ok_bind, run_modifyRegs]

/-- `calla axl`: the target is the low word of the accumulator (no saturation on this path). -/
theorem calla_Axl_run (i : Fin 2) (c : Core) :
    (Exec.calla_Axl i.val).run c =
      callTo (((c.regs.a[i] &&& 0xFFFF).setWidth 16 : U16).setWidth 32) c := by
  have hlt : ∀ v : U16, ((v.setWidth 32 : U32).toNat < 0x40000) := by
    intro v; simp; omega
  unfold Exec.calla_Axl callTo
  rw [run_bind]
  cases hp : pushPC.run c with
  | error e => rfl
  | ok x =>
    have hr := pushPC_regs c x hp
    simp only [except_ok_bind]
    rw [run_bind, regToBus16_axl_run]
    simp only [except_ok_bind]
    rw [setPC_run _ _ (hlt _), hr]

private theorem and18_lt (v : U64) : ((v &&& 0x3FFFF).setWidth 32 : U32).toNat < 0x40000 := by
  have h : (v &&& 0x3FFFF).toNat < 0x40000 := by
    rw [BitVec.toNat_and]
    have := Nat.and_two_pow_sub_one_eq_mod v.toNat 18
    have e : (0x3FFFF : U64).toNat = 2 ^ 18 - 1 := by decide
    rw [e, this]
    omega
  rw [BitVec.toNat_setWidth]
  exact Nat.lt_of_le_of_lt (Nat.mod_le _ _) h

/-- `calla ax`: the target is the low 18 bits of the accumulator. -/
theorem calla_Ax_run (i : Fin 2) (c : Core) :
    (Exec.calla_Ax i.val).run c = callTo ((c.regs.a[i] &&& 0x3FFFF).setWidth 32) c := by
  unfold Exec.calla_Ax callTo
  rw [run_bind]
  cases hp : pushPC.run c with
  | error e => rfl
  | ok x =>
    have hr := pushPC_regs c x hp
    simp only [except_ok_bind]
    rw [run_bind, getAcc_ax_run]
    simp only [except_ok_bind]
    rw [setPC_run _ _ (and18_lt _), hr]

/-! ## the state after a call -/

/-- The machine after a call to `target` on an ordinary stack. -/
def calledAt (c : Core) (a1 a2 : U32) (target : U32) : Core :=
  { pushedPC c a1 a2 with regs := { c.regs with sp := c.regs.sp - 2, pc := target } }

theorem callTo_ordinary (c : Core) (a1 a2 target : U32)
    (h1 : OrdinaryAt c.bus (c.regs.sp - 1) a1) (h2 : OrdinaryAt c.bus (c.regs.sp - 2) a2) :
    callTo target c = .ok ((), calledAt c a1 a2 target) := by
  unfold callTo
  rw [pushPC_ordinary c a1 a2 h1 h2]
  rfl

/-- **After a call** the top of the stack is the frame of the `pc` the handler was entered with
(the address of the instruction after the call), pushed from the caller's `sp`; `pc` is the target,
`sp` has decreased by 2 and no other register has changed. -/
theorem calledAt_frame (c : Core) (a1 a2 target : U32)
    (h1 : OrdinaryAt c.bus (c.regs.sp - 1) a1) (h2 : OrdinaryAt c.bus (c.regs.sp - 2) a2) :
    ReturnFrame (calledAt c a1 a2 target) c.regs.sp c.regs.pc a1 a2 ∧
    (calledAt c a1 a2 target).regs = { c.regs with sp := c.regs.sp - 2, pc := target } :=
  ⟨(pushPC_frame c a1 a2 h1 h2).setRegs _ rfl rfl, rfl⟩

/-! ## closed forms of the return handlers on a frame -/

theorem ret_run (cond : Nat) (c : Core) :
    (Exec.ret_Cond cond).run c =
      if condVal (Cond.name cond) c.regs = true then popPC.run c else .ok ((), c) := by
  unfold Exec.ret_Cond
  rw [run_bind, conditionPass_run, except_ok_bind, fst_mk, snd_mk]
  by_cases h : condVal (Cond.name cond) c.regs = true
  · simp only [h, if_true]
  · simp only [h]; rfl

theorem rets_run (a : Nat) (c : Core) :
    (Exec.rets_Imm8 a).run c =
      (popPC.run c >>= fun x => .ok ((), { x.2 with regs := { x.2.regs with sp := x.2.regs.sp + imm16 a } })) := by
  unfold Exec.rets_Imm8
  rw [run_bind]
  rfl

/-- **`ret cond` on a frame**: resumes at the pushed address with the caller's `sp`. -/
theorem ret_frame (cond : Nat) (c : Core) (sp : U16) (pc a1 a2 : U32) (h : ReturnFrame c sp pc a1 a2)
    (hpc : pc.toNat < 0x40000) (hc : condVal (Cond.name cond) c.regs = true) :
    (Exec.ret_Cond cond).run c = .ok ((), poppedPC c sp pc a1 a2) := by
  rw [ret_run, if_pos hc, popPC_frame c sp pc a1 a2 h hpc]

/-- **`rets imm8` on a frame**: as `ret`, then `sp += imm8` (the callee removes its stack
arguments): `sp` ends at the caller's `sp` plus the immediate. -/
theorem rets_frame (a : Nat) (c : Core) (sp : U16) (pc a1 a2 : U32) (h : ReturnFrame c sp pc a1 a2)
    (hpc : pc.toNat < 0x40000) :
    (Exec.rets_Imm8 a).run c =
      .ok ((), { poppedPC c sp pc a1 a2 with regs := { c.regs with sp := sp + imm16 a, pc := pc } }) := by
  rw [rets_run, popPC_frame c sp pc a1 a2 h hpc]
  rfl

/-- **`reti cond` on a frame**: as `ret`, and `ie := 1`. -/
theorem reti_frame (cond : Nat) (c : Core) (sp : U16) (pc a1 a2 : U32) (h : ReturnFrame c sp pc a1 a2)
    (hpc : pc.toNat < 0x40000) (hc : condVal (Cond.name cond) c.regs = true) :
    (Exec.reti_Cond cond).run c =
      .ok ((), { poppedPC c sp pc a1 a2 with regs := { c.regs with sp := sp, pc := pc, ie := 1 } }) := by
  rw [reti_run, if_pos hc, popPC_frame c sp pc a1 a2 h hpc]
  rfl

/-- **`retic cond` on a frame**: as `reti`, then `ContextRestore`. -/
theorem retic_frame (cond : Nat) (c : Core) (sp : U16) (pc a1 a2 : U32) (h : ReturnFrame c sp pc a1 a2)
    (hpc : pc.toNat < 0x40000) (hc : condVal (Cond.name cond) c.regs = true) :
    (Exec.retic_Cond cond).run c =
      .ok ((), { poppedPC c sp pc a1 a2 with
                 regs := contextRestorePure { c.regs with sp := sp, pc := pc, ie := 1 } }) := by
  rw [retic_run, if_pos hc, popPC_frame c sp pc a1 a2 h hpc]
  rfl

/-! ## failing conditions -/

/-- A call whose condition fails changes nothing at all (no push, no jump, no access). -/
theorem call_cond_false (lo hi cond : Nat) (c : Core) (h : condVal (Cond.name cond) c.regs = false) :
    (Exec.call_Address18_16_Address18_2_Cond lo hi cond).run c = .ok ((), c) := by
  rw [call_run, h]; rfl

theorem callr_cond_false (addr cond : Nat) (c : Core) (h : condVal (Cond.name cond) c.regs = false) :
    (Exec.callr_RelAddr7_Cond addr cond).run c = .ok ((), c) := by
  rw [callr_run, h]; rfl

/-- A return whose condition fails changes nothing at all. -/
theorem ret_cond_false (cond : Nat) (c : Core) (h : condVal (Cond.name cond) c.regs = false) :
    (Exec.ret_Cond cond).run c = .ok ((), c) := by
  rw [ret_run, h]; rfl

theorem reti_cond_false (cond : Nat) (c : Core) (h : condVal (Cond.name cond) c.regs = false) :
    (Exec.reti_Cond cond).run c = .ok ((), c) ∧ (Exec.retic_Cond cond).run c = .ok ((), c) := by
  rw [reti_run, retic_run, h]; exact ⟨rfl, rfl⟩

/-! ## call ; return -/

/-- The call forms of the model, as data (for one statement covering all of them). -/
inductive CallForm where
  | call (lo hi cond : Nat)
  | callr (addr cond : Nat)
  | callaAxl (i : Fin 2)
  | callaAx (i : Fin 2)

def CallForm.exec : CallForm → Exec Unit
  | .call lo hi cond => Exec.call_Address18_16_Address18_2_Cond lo hi cond
  | .callr addr cond => Exec.callr_RelAddr7_Cond addr cond
  | .callaAxl i => Exec.calla_Axl i.val
  | .callaAx i => Exec.calla_Ax i.val

/-- The condition of a call form in a register state (`true` for the unconditional forms). -/
def CallForm.taken (f : CallForm) (r : Regs) : Bool :=
  match f with
  | .call _ _ cond => condVal (Cond.name cond) r
  | .callr _ cond => condVal (Cond.name cond) r
  | _ => true

/-- Where a call form jumps. -/
def CallForm.target (f : CallForm) (r : Regs) : U32 :=
  match f with
  | .call lo hi _ => address18 lo hi
  | .callr addr _ => r.pc + relAddr7 addr
  | .callaAxl i => ((r.a[i] &&& 0xFFFF).setWidth 16 : U16).setWidth 32
  | .callaAx i => (r.a[i] &&& 0x3FFFF).setWidth 32

theorem CallForm.run (f : CallForm) (c : Core) :
    f.exec.run c = if f.taken c.regs = true then callTo (f.target c.regs) c else .ok ((), c) := by
  cases f with
  | call lo hi cond => exact call_run lo hi cond c
  | callr addr cond => exact callr_run addr cond c
  | callaAxl i => simp only [CallForm.exec, CallForm.taken, CallForm.target, if_true]; exact calla_Axl_run i c
  | callaAx i => simp only [CallForm.exec, CallForm.taken, CallForm.target, if_true]; exact calla_Ax_run i c

/-- **A taken call** on an ordinary stack: the machine is `calledAt … target`. -/
theorem CallForm.run_taken (f : CallForm) (c : Core) (a1 a2 : U32)
    (h1 : OrdinaryAt c.bus (c.regs.sp - 1) a1) (h2 : OrdinaryAt c.bus (c.regs.sp - 2) a2)
    (ht : f.taken c.regs = true) :
    f.exec.run c = .ok ((), calledAt c a1 a2 (f.target c.regs)) := by
  rw [f.run, if_pos ht, callTo_ordinary c a1 a2 _ h1 h2]

/-- A call that is not taken changes nothing. -/
theorem CallForm.run_not_taken (f : CallForm) (c : Core) (ht : f.taken c.regs = false) :
    f.exec.run c = .ok ((), c) := by
  rw [f.run, ht]; rfl

/-- **Call, then the matching return, for every call form.**  With the two stack slots below `sp`
in ordinary memory, the call taken, the return's condition true and `pc < 0x40000` (`SetPC`'s
`ASSERT`): `call ; ret` ends with the *whole register file as it was when the call handler was
entered* — in particular `pc` is the address the loop body had advanced to, i.e. the instruction
after the call, and `sp` is restored — for both values of `cpc`.  Memory differs only in the two
stack slots; four accesses are logged. -/
theorem call_ret_roundtrip (f : CallForm) (rcond : Nat) (c : Core) (a1 a2 : U32)
    (h1 : OrdinaryAt c.bus (c.regs.sp - 1) a1) (h2 : OrdinaryAt c.bus (c.regs.sp - 2) a2)
    (hpc : c.regs.pc.toNat < 0x40000) (ht : f.taken c.regs = true)
    (hr : condVal (Cond.name rcond) c.regs = true) :
    (do f.exec; Exec.ret_Cond rcond : Exec Unit).run c = .ok ((), afterPushPopPC c a1 a2) := by
  rw [run_bind, f.run_taken c a1 a2 h1 h2 ht]
  simp only [except_ok_bind]
  rw [ret_frame rcond _ _ _ _ _ (calledAt_frame c a1 a2 _ h1 h2).1 hpc
    (by rw [show (calledAt c a1 a2 (f.target c.regs)).regs =
          { c.regs with sp := c.regs.sp - 2, pc := f.target c.regs } from rfl, condVal_sp_pc]; exact hr)]
  rfl

/-- The instance the task names. -/
theorem call_ret_roundtrip_addr18 (lo hi cond rcond : Nat) (c : Core) (a1 a2 : U32)
    (h1 : OrdinaryAt c.bus (c.regs.sp - 1) a1) (h2 : OrdinaryAt c.bus (c.regs.sp - 2) a2)
    (hpc : c.regs.pc.toNat < 0x40000) (ht : condVal (Cond.name cond) c.regs = true)
    (hr : condVal (Cond.name rcond) c.regs = true) :
    (do Exec.call_Address18_16_Address18_2_Cond lo hi cond; Exec.ret_Cond rcond : Exec Unit).run c =
      .ok ((), afterPushPopPC c a1 a2) :=
  call_ret_roundtrip (.call lo hi cond) rcond c a1 a2 h1 h2 hpc ht hr

/-- **Call, then `rets imm8`**: registers as at the call except `sp = sp + imm8`. -/
theorem call_rets_roundtrip (f : CallForm) (a : Nat) (c : Core) (a1 a2 : U32)
    (h1 : OrdinaryAt c.bus (c.regs.sp - 1) a1) (h2 : OrdinaryAt c.bus (c.regs.sp - 2) a2)
    (hpc : c.regs.pc.toNat < 0x40000) (ht : f.taken c.regs = true) :
    (do f.exec; Exec.rets_Imm8 a : Exec Unit).run c =
      .ok ((), { afterPushPopPC c a1 a2 with regs := { c.regs with sp := c.regs.sp + imm16 a } }) := by
  rw [run_bind, f.run_taken c a1 a2 h1 h2 ht]
  simp only [except_ok_bind]
  rw [rets_frame a _ _ _ _ _ (calledAt_frame c a1 a2 _ h1 h2).1 hpc]
  rfl

/-- **Call, then `reti`**: registers as at the call except `ie = 1`. -/
theorem call_reti_roundtrip (f : CallForm) (rcond : Nat) (c : Core) (a1 a2 : U32)
    (h1 : OrdinaryAt c.bus (c.regs.sp - 1) a1) (h2 : OrdinaryAt c.bus (c.regs.sp - 2) a2)
    (hpc : c.regs.pc.toNat < 0x40000) (ht : f.taken c.regs = true)
    (hr : condVal (Cond.name rcond) c.regs = true) :
    (do f.exec; Exec.reti_Cond rcond : Exec Unit).run c =
      .ok ((), { afterPushPopPC c a1 a2 with regs := { c.regs with ie := 1 } }) := by
  rw [run_bind, f.run_taken c a1 a2 h1 h2 ht]
  simp only [except_ok_bind]
  rw [reti_frame rcond _ _ _ _ _ (calledAt_frame c a1 a2 _ h1 h2).1 hpc
    (by rw [show (calledAt c a1 a2 (f.target c.regs)).regs =
          { c.regs with sp := c.regs.sp - 2, pc := f.target c.regs } from rfl, condVal_sp_pc]; exact hr)]
  rfl

/-- **Call, any callee, return.**  If the callee body `body` (any program), started in the state
after the call, ends in a state whose `sp`, `cpc`, MIU registers and the two stack words are those
it started with, and the return's condition holds there, then `ret` resumes at the instruction
after the call with the caller's `sp`, every other register as the callee left it. -/
theorem call_body_ret (f : CallForm) (body : Exec Unit) (rcond : Nat) (c c2 : Core) (a1 a2 : U32)
    (h1 : OrdinaryAt c.bus (c.regs.sp - 1) a1) (h2 : OrdinaryAt c.bus (c.regs.sp - 2) a2)
    (hpc : c.regs.pc.toNat < 0x40000) (ht : f.taken c.regs = true)
    (hbody : body.run (calledAt c a1 a2 (f.target c.regs)) = .ok ((), c2))
    (hsp : c2.regs.sp = c.regs.sp - 2) (hcpc : c2.regs.cpc = c.regs.cpc)
    (hmiu : c2.bus.miu = c.bus.miu)
    (hw1 : c2.bus.mem.read (stackCell a1) = (pcWords c.regs).1)
    (hw2 : c2.bus.mem.read (stackCell a2) = (pcWords c.regs).2)
    (hr : condVal (Cond.name rcond) c2.regs = true) :
    (do f.exec; body; Exec.ret_Cond rcond : Exec Unit).run c =
      .ok ((), poppedPC c2 c.regs.sp c.regs.pc a1 a2) := by
  rw [run_bind, f.run_taken c a1 a2 h1 h2 ht]
  simp only [except_ok_bind]
  rw [run_bind, hbody]
  simp only [except_ok_bind]
  have fr := (calledAt_frame c a1 a2 (f.target c.regs) h1 h2).1
  have fr2 : ReturnFrame c2 c.regs.sp c.regs.pc a1 a2 :=
    fr.of_eq hsp hcpc hmiu (hw1.trans (fr.word1.trans rfl).symm) (hw2.trans (fr.word2.trans rfl).symm)
  exact ret_frame rcond c2 _ _ _ _ fr2 hpc hr

end Teakra
