import Proofs.C08Stack.Pusha
/-!
# C08 (stack part 8) — `push px ; pop px` and `push abe ; pop abe`
-/
namespace Teakra
open Teakra Exec ExecLemmas Interp Sys RegName

set_option linter.unusedSimpArgs false

/-! ## bit lemmas -/

theorem and_mask32_bit (x : U64) (i : Nat) : (x &&& 0xFFFFFFFF).getLsbD i = (x.getLsbD i && decide (i < 32)) := by
  rw [BitVec.getLsbD_and]
  congr 1
  by_cases h : i < 64
  · have : ∀ j : Fin 64, (BitVec.ofNat 64 4294967295).getLsbD j.val = decide (j.val < 32) := by decide
    exact this ⟨i, h⟩
  · rw [BitVec.getLsbD_of_ge _ _ (by omega)]; simp; omega

theorem and_mask32_bit' (x : U64) (i : Nat) :
    (x &&& ((4294967295 : Nat) : U64)).getLsbD i = (x.getLsbD i && decide (i < 32)) := by
  rw [BitVec.getLsbD_and]
  congr 1
  by_cases h : i < 64
  · have : ∀ j : Fin 64, (BitVec.ofNat 64 4294967295).getLsbD j.val = decide (j.val < 32) := by decide
    exact this ⟨i, h⟩
  · rw [BitVec.getLsbD_of_ge _ _ (by omega)]; simp; omega

theorem and_mask16_bit64 (x : U64) (i : Nat) : (x &&& 0xFFFF).getLsbD i = (x.getLsbD i && decide (i < 16)) := by
  rw [BitVec.getLsbD_and]
  congr 1
  by_cases h : i < 64
  · have : ∀ j : Fin 64, (BitVec.ofNat 64 65535).getLsbD j.val = decide (j.val < 16) := by decide
    exact this ⟨i, h⟩
  · rw [BitVec.getLsbD_of_ge _ _ (by omega)]; simp; omega

theorem and_mask8_bit16 (x : U16) (i : Nat) : (x &&& 0xFF).getLsbD i = (x.getLsbD i && decide (i < 8)) := by
  rw [BitVec.getLsbD_and]
  congr 1
  by_cases h : i < 16
  · have : ∀ j : Fin 16, (BitVec.ofNat 16 255).getLsbD j.val = decide (j.val < 8) := by decide
    exact this ⟨i, h⟩
  · rw [BitVec.getLsbD_of_ge _ _ (by omega)]; simp; omega

/-- An accumulator kept "sign-extended from bit 39 in 64 bits" (the invariant of the register
file; `Regs.SignExt40` of `TeakraModel/RegFile.lean` is the same statement). -/
def SignExt40 (acc : U64) : Prop := acc = Alu.signExtend 40 acc
instance : DecidablePred SignExt40 := fun _ => inferInstanceAs (Decidable (_ = _))

theorem signExt40_bit (acc : U64) (h : SignExt40 acc) (i : Nat) (h1 : 40 ≤ i) (h2 : i < 64) :
    acc.getLsbD i = acc.getLsbD 39 := by
  have e := congrArg (fun x => x.getLsbD i) h
  simp only [Alu.signExtend, BitVec.getLsbD_signExtend, BitVec.getLsbD_setWidth, BitVec.msb_eq_getLsbD_last] at e
  rw [e]
  simp [h2, show ¬ i < 40 by omega]

/-! ## `push px` / `pop px` -/

/-- With the product shifter off (`ps = 0`) the low 32 bits of `ProductToBus40` are `p`. -/
theorem px_noshift (p : U32) (pe : U16) :
    ((Alu.signExtend 33 (p.setWidth 64 ||| (pe.setWidth 64 <<< 32))).setWidth 32 : U32) = p := by
  unfold Alu.signExtend
  apply BitVec.eq_of_getLsbD_eq
  intro i hi
  simp only [BitVec.getLsbD_setWidth, BitVec.getLsbD_signExtend, BitVec.getLsbD_or, BitVec.getLsbD_shiftLeft]
  have h1 : i < 33 := by omega
  have h2 : i < 64 := by omega
  simp [hi, h1, h2]

/-- The unit a `Px` operand selects. -/
def pxUnit (a : Nat) : Fin 2 := if a == 1 then 1 else 0

/-- The 32-bit value `push px` puts on the stack. -/
def pxBus32 (r : Regs) (u : Fin 2) : U32 := (Alu.productToBus40 r.p[u] r.pe[u] r.ps[u]).setWidth 32

/-- **`push px ; pop px`, closed form**: `p[u]` becomes the low 32 bits of `ProductToBus40` (the
product *after the shifter `ps`*), `pe[u]` becomes bit 31 of that value; `sp` and every other
register are unchanged. -/
theorem push_px_pop_px (a : Nat) (c : Core) (a1 a2 : U32)
    (h1 : OrdinaryAt c.bus (c.regs.sp - 1) a1) (h2 : OrdinaryAt c.bus (c.regs.sp - 2) a2) :
    (do Exec.push_Px a; Exec.pop_Px a : Exec Unit).run c =
      .ok ((),
        { afterPushPop2 c a1 a2 ((pxBus32 c.regs (pxUnit a) &&& 0xFFFF).setWidth 16)
            ((pxBus32 c.regs (pxUnit a) >>> 16).setWidth 16) with
          regs := { c.regs with
            p := c.regs.p.set (pxUnit a) (pxBus32 c.regs (pxUnit a))
            pe := c.regs.pe.set (pxUnit a) ((pxBus32 c.regs (pxUnit a) >>> 31).setWidth 16) } }) := by
  unfold Exec.push_Px Exec.pop_Px productToBus40
  simp only [bind_assoc, pure_bind]
  rw [run_bind, run_getRegs]
  simp only [except_ok_bind]
  have key := push2_pop2 c ((pxBus32 c.regs (pxUnit a) &&& 0xFFFF).setWidth 16)
    ((pxBus32 c.regs (pxUnit a) >>> 16).setWidth 16) a1 a2
    (fun h l => productFromBus32 (pxUnit a) (((h.setWidth 32 : U32) <<< 16) ||| l.setWidth 32)) h1 h2
  simp only [bind_assoc] at key
  refine key.trans ?_
  rw [join16_32]
  rfl

/-- **The product register and its extension bit are restored** exactly under: shifter off
(`ps[u] = 0`) and `pe[u]` equal to bit 31 of `p[u]` (true after every signed×signed multiply). -/
theorem push_px_pop_px_restores (a : Nat) (c : Core) (a1 a2 : U32)
    (h1 : OrdinaryAt c.bus (c.regs.sp - 1) a1) (h2 : OrdinaryAt c.bus (c.regs.sp - 2) a2)
    (hps : c.regs.ps[pxUnit a] = 0)
    (hpe : c.regs.pe[pxUnit a] = (c.regs.p[pxUnit a] >>> 31).setWidth 16) :
    (do Exec.push_Px a; Exec.pop_Px a : Exec Unit).run c =
      .ok ((), afterPushPop2 c a1 a2 ((c.regs.p[pxUnit a] &&& 0xFFFF).setWidth 16)
                 ((c.regs.p[pxUnit a] >>> 16).setWidth 16)) := by
  have hv : pxBus32 c.regs (pxUnit a) = c.regs.p[pxUnit a] := by
    unfold pxBus32 Alu.productToBus40
    rw [hps]
    exact px_noshift _ _
  rw [push_px_pop_px a c a1 a2 h1 h2, hv, ← hpe]
  have e1 : c.regs.p.set (pxUnit a) c.regs.p[pxUnit a] = c.regs.p := by
    apply Vector.ext; intro j hj
    simp only [Vector.getElem_set, Fin.getElem_fin]
    split
    · subst_vars; rfl
    · rfl
  have e2 : c.regs.pe.set (pxUnit a) c.regs.pe[pxUnit a] = c.regs.pe := by
    apply Vector.ext; intro j hj
    simp only [Vector.getElem_set, Fin.getElem_fin]
    split
    · subst_vars; rfl
    · rfl
  rw [e1, e2]
  rfl

/-- With `ps = 0` alone: `p` is restored, `pe` becomes bit 31 of `p`. -/
theorem push_px_pop_px_partial (a : Nat) (c : Core) (a1 a2 : U32)
    (h1 : OrdinaryAt c.bus (c.regs.sp - 1) a1) (h2 : OrdinaryAt c.bus (c.regs.sp - 2) a2)
    (hps : c.regs.ps[pxUnit a] = 0) :
    ∃ c', (do Exec.push_Px a; Exec.pop_Px a : Exec Unit).run c = .ok ((), c') ∧
      c'.regs.p = c.regs.p ∧ c'.regs.sp = c.regs.sp ∧
      c'.regs.pe = c.regs.pe.set (pxUnit a) ((c.regs.p[pxUnit a] >>> 31).setWidth 16) := by
  have hv : pxBus32 c.regs (pxUnit a) = c.regs.p[pxUnit a] := by
    unfold pxBus32 Alu.productToBus40
    rw [hps]
    exact px_noshift _ _
  refine ⟨_, push_px_pop_px a c a1 a2 h1 h2, ?_, rfl, ?_⟩
  · show c.regs.p.set (pxUnit a) (pxBus32 c.regs (pxUnit a)) = c.regs.p
    rw [hv]
    apply Vector.ext; intro j hj
    simp only [Vector.getElem_set, Fin.getElem_fin]
    split
    · subst_vars; rfl
    · rfl
  · show c.regs.pe.set (pxUnit a) _ = _
    rw [hv]

/-- Negative witnesses: (1) `pe = 1` with bit 31 of `p` clear (an unsigned product ≥ 2³²) comes
back with `pe = 0`; (2) with the shifter on (`ps = 1`, `>> 1`) `p = 2` comes back as `1`. -/
theorem push_px_pop_px_counterexample :
    (let r : Regs := { pe := #v[1, 0] }; ((pxBus32 r 0 >>> 31).setWidth 16 : U16) ≠ r.pe[0]) ∧
    (let r : Regs := { p := #v[2, 0], ps := #v[1, 0] }; pxBus32 r 0 ≠ r.p[0]) := by
  decide

/-! ## `push abe` / `pop abe` -/

/-- Bits 32..47 of a 64-bit value (what `push abe` stores). -/
def ext16 (v : U64) : U16 := ((v >>> 32) &&& 0xFFFF).setWidth 16

/-- The accumulator `pop abe` assembles from the current accumulator and the popped word. -/
def abeSet (acc : U64) (w : U16) : U64 :=
  (acc &&& 0xFFFFFFFF) ||| (((Alu.signExtend32 8 ((w &&& 0xFF).setWidth 32)).setWidth 64 : U64) <<< 32)

/-- Writing back the own extension word is the identity on a sign-extended 40-bit accumulator. -/
theorem abeSet_ext16 (acc : U64) (h : SignExt40 acc) : abeSet acc (ext16 acc) = acc := by
  unfold abeSet ext16 Alu.signExtend32
  apply BitVec.eq_of_getLsbD_eq
  intro i hi
  simp only [BitVec.getLsbD_or, and_mask32_bit, and_mask32_bit', and_mask8_bit16, and_mask16_bit64,
    BitVec.getLsbD_shiftLeft, BitVec.getLsbD_setWidth, BitVec.getLsbD_signExtend, BitVec.getLsbD_ushiftRight,
    BitVec.msb_eq_getLsbD_last]
  by_cases h32 : i < 32
  · simp [h32, hi]
  · by_cases h40 : i < 40
    · have e : 32 + (i - 32) = i := by omega
      simp [h32, hi, e, show i - 32 < 32 by omega, show i - 32 < 8 by omega, show i - 32 < 16 by omega,
        show i - 32 < 64 by omega]
    · simp [h32, hi, show i - 32 < 32 by omega, show ¬ (i - 32 < 8) by omega, show i - 32 < 64 by omega]
      exact (signExt40_bit acc h i (by omega) hi).symm

theorem accIndex_Abe (a : Fin 4) :
    accIndex (Abe.name a.val) = some (decide (a.val < 2), if a.val % 2 = 0 then 0 else 1) := by
  have : a = 0 ∨ a = 1 ∨ a = 2 ∨ a = 3 := by omega
  rcases this with rfl | rfl | rfl | rfl <;> rfl

theorem accOf_satRead (r : Regs) (acc : U64) (isB : Bool) (i : Fin 2) :
    accOf (satRead r acc).2 isB i = accOf r isB i := by
  unfold satRead
  split
  · simp only []; split <;> cases isB <;> rfl
  · rfl

theorem accOf_sp (r : Regs) (sp : U16) (isB : Bool) (i : Fin 2) :
    accOf ({ r with sp := sp } : Regs) isB i = accOf r isB i := by cases isB <;> rfl

/-- **`push abe ; pop abe`, closed form.**  Let `(v, r₁)` be the result of `GetAndSatAcc`.  The
accumulator becomes `abeSet acc (ext16 v)`: low 32 bits kept, bits 32..63 the sign extension of the
low byte of the pushed extension word; flags `fz fm fe fn` recomputed; `sp` and every other register
as in `r₁`. -/
theorem push_abe_pop_abe (a : Nat) (isB : Bool) (i : Fin 2) (hn : accIndex (Abe.name a) = some (isB, i))
    (c : Core) (conv : U32) (ho : OrdinaryAt c.bus (c.regs.sp - 1) conv) :
    (do Exec.push_Abe a; Exec.pop_Abe a : Exec Unit).run c =
      .ok ((),
        { afterPushPop { c with regs := (satRead c.regs (accOf c.regs isB i)).2 } conv
            (ext16 (satRead c.regs (accOf c.regs isB i)).1) with
          regs := setAccAndFlagPure isB i
            (abeSet (accOf c.regs isB i) (ext16 (satRead c.regs (accOf c.regs isB i)).1))
            (satRead c.regs (accOf c.regs isB i)).2 }) := by
  generalize hsr : satRead c.regs (accOf c.regs isB i) = sr
  have hsp : sr.2.sp = c.regs.sp := by rw [← hsr]; exact satRead_sp _ _
  have hacc : accOf sr.2 isB i = accOf c.regs isB i := by rw [← hsr]; exact accOf_satRead _ _ _ _
  have hget : (do let v ← getAndSatAcc (Abe.name a); pure (ext16 v) : Exec U16).run c =
      .ok (ext16 sr.1, { c with regs := sr.2 }) := by
    rw [run_bind, getAndSatAcc_run _ isB i hn, hsr]; rfl
  have hset : ∀ (w : U16) (c' : Core),
      (do let acc ← getAcc (Abe.name a); setAccAndFlag (Abe.name a) (abeSet acc w) : Exec Unit).run c' =
        .ok ((), { c' with regs := (fun w r => setAccAndFlagPure isB i (abeSet (accOf r isB i) w) r) w c'.regs }) := by
    intro w c'
    rw [run_bind, getAcc_run' _ isB i hn]
    simp only [except_ok_bind]
    rw [setAccAndFlag_run _ isB i hn]
  have ho' : OrdinaryAt ({ c with regs := sr.2 } : Core).bus (({ c with regs := sr.2 } : Core).regs.sp - 1) conv := by
    show OrdinaryAt c.bus (sr.2.sp - 1) conv
    rw [hsp]; exact ho
  have key := push_pop_of (do let v ← getAndSatAcc (Abe.name a); pure (ext16 v) : Exec U16)
    (fun w => (do let acc ← getAcc (Abe.name a); setAccAndFlag (Abe.name a) (abeSet acc w) : Exec Unit))
    c _ _ conv (fun w r => setAccAndFlagPure isB i (abeSet (accOf r isB i) w) r) hget hset ho'
  unfold Exec.push_Abe Exec.pop_Abe
  simp only [bind_assoc, pure_bind] at key ⊢
  refine key.trans ?_
  simp only [hacc]

/-- **With saturation disabled (`sat ≠ 0`) and the accumulator sign-extended from bit 39** the
extension — hence the whole accumulator — and `sp` are restored; the only registers that change are
the flags `fz fm fe fn` (recomputed from the accumulator by `SetAccAndFlag`). -/
theorem push_abe_pop_abe_restores (a : Nat) (isB : Bool) (i : Fin 2)
    (hn : accIndex (Abe.name a) = some (isB, i))
    (c : Core) (conv : U32) (ho : OrdinaryAt c.bus (c.regs.sp - 1) conv)
    (hsat : c.regs.sat ≠ 0) (hext : SignExt40 (accOf c.regs isB i)) :
    (do Exec.push_Abe a; Exec.pop_Abe a : Exec Unit).run c =
      .ok ((), { afterPushPop c conv (ext16 (accOf c.regs isB i)) with
                 regs := withAccFlags c.regs (accOf c.regs isB i) }) := by
  rw [push_abe_pop_abe a isB i hn c conv ho, satRead_off _ _ hsat, abeSet_ext16 _ hext, setAccAndFlagPure_self]

/-- Negative witness (saturation *enabled*, `sat = 0`): the accumulator `0x01_0000_0001` is pushed
as the extension of its saturated value (`0`), and popping that over the *unsaturated* low word
gives `0x0000_0001`: the accumulator value changes. -/
theorem push_abe_pop_abe_sat_counterexample :
    let r : Regs := { a := #v[0x100000001, 0], sat := 0 }
    SignExt40 (accOf r false 0) ∧
    abeSet (accOf r false 0) (ext16 (satRead r (accOf r false 0)).1) = 1 := by
  decide

end Teakra
