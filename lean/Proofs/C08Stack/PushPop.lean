import Proofs.C08Stack.Call
/-!
# C08 (stack part 5) — `push reg` / `pop reg` for the plain 16-bit registers

`push Register` is `RegToBus16(name, true)` followed by `mem.DataWrite(--sp, value)`; `pop Register`
is `mem.DataRead(sp++)` followed by `RegFromBus16(name, value)`.

Operand class `Register` (`registerNames`, 32 names):

| class | names | round trip |
|---|---|---|
| plain | `r0..r5`, `r7`, `y0`, `sp`, `sv`, `lc`, `ext0..ext3` | identity on the register file (`push_pop_register`) |
| accumulator parts | `a0l a1l b0l b1l`, `a0h a1h b0h b1h`, `a0 a1` | `Proofs/C08Stack/Acc.lean` |
| product high word | `p` | `Proofs/C08Stack/Multi.lean` |
| status / config words | `st0 st1 st2 cfgi cfgj` | `Proofs/C08Stack/Status.lean` |
| `pc` | | `UNREACHABLE` on both sides (`push_pc_aborts`) |
-/
namespace Teakra
open Teakra Exec ExecLemmas Interp Sys RegName

/-! ## generic composition -/

/-- `get ; pushWord` then `popWord ; set` where `get` yields `v` in state `c1` (it may have changed
registers: saturation sets `flm`) and `set` is a function `f` of the register file: the stack
slot is written and read back, `sp` returns to its value, and the registers are `f v c1.regs`. -/
theorem push_pop_of (get : Exec U16) (set : U16 → Exec Unit) (c c1 : Core) (v : U16) (conv : U32)
    (f : U16 → Regs → Regs)
    (hget : get.run c = .ok (v, c1))
    (hset : ∀ v c', (set v).run c' = .ok ((), { c' with regs := f v c'.regs }))
    (h : OrdinaryAt c1.bus (c1.regs.sp - 1) conv) :
    (do (do let v ← get; pushWord v); (do let v ← popWord; set v) : Exec Unit).run c =
      .ok ((), { afterPushPop c1 conv v with regs := f v c1.regs }) := by
  have hpp := push_pop_word c1 v conv h
  rw [run_bind] at hpp
  rw [run_bind, run_bind, hget]
  simp only [except_ok_bind]
  cases hp : (pushWord v).run c1 with
  | error e => rw [hp] at hpp; cases hpp
  | ok x =>
    rw [hp] at hpp
    simp only [except_ok_bind] at hpp ⊢
    rw [run_bind, hpp]
    simp only [except_ok_bind]
    rw [hset]
    rfl

/-! ## the plain registers -/

/-- The names whose `RegToBus16` is a plain member read and whose `RegFromBus16` is a plain member
write. -/
def isPlain : RegName → Bool
  | r0 | r1 | r2 | r3 | r4 | r5 | r6 | r7 | y0 | sp | sv | lc | ext0 | ext1 | ext2 | ext3 => true
  | _ => false

def plainGet : RegName → Regs → U16
  | r0, r => r.r[0] | r1, r => r.r[1] | r2, r => r.r[2] | r3, r => r.r[3]
  | r4, r => r.r[4] | r5, r => r.r[5] | r6, r => r.r[6] | r7, r => r.r[7]
  | y0, r => r.y[0] | sp, r => r.sp | sv, r => r.sv | lc, r => r.lc
  | ext0, r => r.ext[0] | ext1, r => r.ext[1] | ext2, r => r.ext[2] | ext3, r => r.ext[3]
  | _, _ => 0

/-- `regs.Lc() = value` on the register file. -/
def setLcPure (value : U16) (r : Regs) : Regs :=
  let i := if r.lp != 0 then r.bcn.toNat - 1 else 0
  if h : i < 4 then { r with bkrep := r.bkrep.set i { r.bkrep[i] with lc := value } } else r

def plainSet : RegName → U16 → Regs → Regs
  | r0, v, r => { r with r := vset r.r 0 v } | r1, v, r => { r with r := vset r.r 1 v }
  | r2, v, r => { r with r := vset r.r 2 v } | r3, v, r => { r with r := vset r.r 3 v }
  | r4, v, r => { r with r := vset r.r 4 v } | r5, v, r => { r with r := vset r.r 5 v }
  | r6, v, r => { r with r := vset r.r 6 v } | r7, v, r => { r with r := vset r.r 7 v }
  | y0, v, r => { r with y := r.y.set 0 v } | sp, v, r => { r with sp := v }
  | sv, v, r => { r with sv := v } | lc, v, r => setLcPure v r
  | ext0, v, r => { r with ext := r.ext.set 0 v } | ext1, v, r => { r with ext := r.ext.set 1 v }
  | ext2, v, r => { r with ext := r.ext.set 2 v } | ext3, v, r => { r with ext := r.ext.set 3 v }
  | _, _, r => r

theorem regToBus16_plain (n : RegName) (h : isPlain n = true) (sat : Bool) (c : Core) :
    (regToBus16 n sat).run c = .ok (plainGet n c.regs, c) := by
  cases n <;> first | exact absurd h (by decide) | rfl

theorem regFromBus16_plain (n : RegName) (h : isPlain n = true) (v : U16) (c : Core) :
    (regFromBus16 n v).run c = .ok ((), { c with regs := plainSet n v c.regs }) := by
  cases n <;> first | exact absurd h (by decide) | rfl

private theorem vset_self {k : Nat} (v : Vector U16 k) (i : Nat) (h : i < k) : vset v i v[i] = v := by
  unfold vset
  rw [dif_pos h]
  apply Vector.ext; intro j hj
  simp only [Vector.getElem_set]
  split
  · subst_vars; rfl
  · rfl

private theorem set_self {α : Type} {k : Nat} (v : Vector α k) (i : Nat) (h : i < k) : v.set i v[i] h = v := by
  apply Vector.ext; intro j hj
  simp only [Vector.getElem_set]
  split
  · subst_vars; rfl
  · rfl

private theorem bk_set_self (v : Vector BkFrame 4) (i : Nat) (h : i < 4) :
    v.set i { v[i] with lc := v[i].lc } h = v := set_self v i h

/-- Writing `lc` back: the frame that `Lc()` reads is the frame `Lc() = value` writes, with or
without a hardware loop active. -/
theorem setLcPure_lc (r : Regs) : setLcPure r.lc r = r := by
  unfold setLcPure Regs.lc
  by_cases hlp : (r.lp != 0) = true
  · simp only [hlp, if_true]
    by_cases hi : r.bcn.toNat - 1 < 4
    · rw [dif_pos hi]
      have e : (r.bkrep.toArray.getD (r.bcn.toNat - 1) {}) = r.bkrep[r.bcn.toNat - 1] := by
        simp [Array.getD, hi]
      rw [e]
      exact congrArg (fun b => ({ r with bkrep := b } : Regs)) (bk_set_self r.bkrep _ hi)
    · rw [dif_neg hi]
  · simp only [hlp, Bool.false_eq_true, if_false]
    rw [dif_pos (by decide : 0 < 4)]
    exact congrArg (fun b => ({ r with bkrep := b } : Regs)) (bk_set_self r.bkrep 0 (by decide))

/-- **Set after get is the identity** for every plain register. -/
theorem plainSet_plainGet (n : RegName) (r : Regs) : plainSet n (plainGet n r) r = r := by
  cases n <;> first
    | rfl
    | exact setLcPure_lc r
    | (simp only [plainSet, plainGet]; rw [vset_self _ _ (by decide)])
    | (simp only [plainSet, plainGet]; rw [set_self])

/-- **`push reg ; pop reg` for a plain register** (operand value `a` with
`Register.name a ∈ {r0..r5, r7, y0, sp, sv, lc, ext0..ext3}`), stack slot in ordinary memory:
the *whole register file* is as before — the register's value and `sp` in particular — the slot
holds the value, two accesses are logged, nothing else changes.  No side condition on saturation
or hardware loops is needed for this class (`lc` included, `sp` included: `push sp` stores the
value before the decrement and `pop sp` assigns after the increment). -/
theorem push_pop_register (a : Nat) (h : isPlain (Register.name a) = true) (c : Core) (conv : U32)
    (ho : OrdinaryAt c.bus (c.regs.sp - 1) conv) :
    (do Exec.push_Register a; Exec.pop_Register a : Exec Unit).run c =
      .ok ((), afterPushPop c conv (plainGet (Register.name a) c.regs)) := by
  have := push_pop_of (regToBus16 (Register.name a) true) (regFromBus16 (Register.name a)) c c
    (plainGet (Register.name a) c.regs) conv (plainSet (Register.name a))
    (regToBus16_plain _ h true c) (fun v c' => regFromBus16_plain _ h v c') ho
  unfold Exec.push_Register Exec.pop_Register
  rw [this, plainSet_plainGet]
  rfl

/-- The operand values of the plain class. -/
theorem plain_operands :
    (List.range 32).filter (fun a => isPlain (Register.name a)) = [0, 1, 2, 3, 4, 5, 6, 7, 13, 20, 21, 22, 23, 30, 31] := by
  decide

/-- `push pc` / `pop pc` are `UNREACHABLE` in `RegToBus16` / `RegFromBus16`. -/
theorem push_pc_aborts (c : Core) :
    (Exec.push_Register 12).run c = .error (.abort .assert) := rfl

/-! ## the dedicated one-word forms: `r6`, `x0`, `x1`, `y1`, `repc`, `prpage`, immediates -/

private theorem push_pop_direct (c : Core) (v : U16) (conv : U32) (f : U16 → Regs → Regs)
    (hid : f v c.regs = c.regs)
    (ho : OrdinaryAt c.bus (c.regs.sp - 1) conv) :
    (do (do pushWord v); (do let v ← popWord; modifyRegs (f v)) : Exec Unit).run c =
      .ok ((), afterPushPop c conv v) := by
  have := push_pop_of (pure v) (fun v => modifyRegs (f v)) c c v conv f rfl (fun _ _ => rfl) ho
  simp only [pure_bind] at this
  rw [this, hid]
  rfl

theorem push_pop_r6 (c : Core) (conv : U32) (ho : OrdinaryAt c.bus (c.regs.sp - 1) conv) :
    (do Exec.push_r6; Exec.pop_r6 : Exec Unit).run c = .ok ((), afterPushPop c conv c.regs.r[6]) := by
  have := push_pop_of (do return (← getRegs).r[6]) (setR 6) c c c.regs.r[6] conv
    (fun v r => { r with r := vset r.r 6 v }) rfl (fun _ _ => rfl) ho
  unfold Exec.push_r6 Exec.pop_r6
  simp only [bind_assoc, pure_bind] at this ⊢
  rw [this, vset_self _ _ (by decide)]
  rfl

theorem push_pop_x0 (c : Core) (conv : U32) (ho : OrdinaryAt c.bus (c.regs.sp - 1) conv) :
    (do Exec.push_x0; Exec.pop_x0 : Exec Unit).run c = .ok ((), afterPushPop c conv c.regs.x[0]) := by
  have := push_pop_of (do return (← getRegs).x[0]) (fun v => modifyRegs fun r => { r with x := r.x.set 0 v })
    c c c.regs.x[0] conv (fun v r => { r with x := r.x.set 0 v }) rfl (fun _ _ => rfl) ho
  unfold Exec.push_x0 Exec.pop_x0
  simp only [bind_assoc, pure_bind] at this ⊢
  rw [this, set_self]
  rfl

theorem push_pop_x1 (c : Core) (conv : U32) (ho : OrdinaryAt c.bus (c.regs.sp - 1) conv) :
    (do Exec.push_x1; Exec.pop_x1 : Exec Unit).run c = .ok ((), afterPushPop c conv c.regs.x[1]) := by
  have := push_pop_of (do return (← getRegs).x[1]) (fun v => modifyRegs fun r => { r with x := r.x.set 1 v })
    c c c.regs.x[1] conv (fun v r => { r with x := r.x.set 1 v }) rfl (fun _ _ => rfl) ho
  unfold Exec.push_x1 Exec.pop_x1
  simp only [bind_assoc, pure_bind] at this ⊢
  rw [this, set_self]
  rfl

theorem push_pop_y1 (c : Core) (conv : U32) (ho : OrdinaryAt c.bus (c.regs.sp - 1) conv) :
    (do Exec.push_y1; Exec.pop_y1 : Exec Unit).run c = .ok ((), afterPushPop c conv c.regs.y[1]) := by
  have := push_pop_of (do return (← getRegs).y[1]) (fun v => modifyRegs fun r => { r with y := r.y.set 1 v })
    c c c.regs.y[1] conv (fun v r => { r with y := r.y.set 1 v }) rfl (fun _ _ => rfl) ho
  unfold Exec.push_y1 Exec.pop_y1
  simp only [bind_assoc, pure_bind] at this ⊢
  rw [this, set_self]
  rfl

theorem push_pop_repc (c : Core) (conv : U32) (ho : OrdinaryAt c.bus (c.regs.sp - 1) conv) :
    (do Exec.push_repc; Exec.pop_repc : Exec Unit).run c = .ok ((), afterPushPop c conv c.regs.repc) := by
  have := push_pop_of (do return (← getRegs).repc) (fun v => modifyRegs fun r => { r with repc := v })
    c c c.regs.repc conv (fun v r => { r with repc := v }) rfl (fun _ _ => rfl) ho
  unfold Exec.push_repc Exec.pop_repc
  simp only [bind_assoc, pure_bind] at this ⊢
  rw [this]
  rfl

theorem push_pop_prpage (c : Core) (conv : U32) (ho : OrdinaryAt c.bus (c.regs.sp - 1) conv) :
    (do Exec.push_prpage; Exec.pop_prpage : Exec Unit).run c = .ok ((), afterPushPop c conv c.regs.prpage) := by
  have := push_pop_of (do return (← getRegs).prpage) (fun v => modifyRegs fun r => { r with prpage := v })
    c c c.regs.prpage conv (fun v r => { r with prpage := v }) rfl (fun _ _ => rfl) ho
  unfold Exec.push_prpage Exec.pop_prpage
  simp only [bind_assoc, pure_bind] at this ⊢
  rw [this]
  rfl

/-- `push imm16 ; pop reg` loads the immediate into a plain register (and restores `sp`). -/
theorem push_imm_pop_register (imm a : Nat) (h : isPlain (Register.name a) = true) (c : Core) (conv : U32)
    (ho : OrdinaryAt c.bus (c.regs.sp - 1) conv) :
    (do Exec.push_Imm16 imm; Exec.pop_Register a : Exec Unit).run c =
      .ok ((), { afterPushPop c conv (imm16 imm) with regs := plainSet (Register.name a) (imm16 imm) c.regs }) := by
  have := push_pop_of (pure (imm16 imm)) (regFromBus16 (Register.name a)) c c
    (imm16 imm) conv (plainSet (Register.name a)) rfl (fun v c' => regFromBus16_plain _ h v c') ho
  unfold Exec.push_Imm16 Exec.pop_Register
  simp only [pure_bind] at this
  exact this

end Teakra
