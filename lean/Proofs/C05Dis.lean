import Proofs.C02Fetch
import TeakraModel.DisasmTop
/-!
# C05 / C02 — the disassembler model: unused bits never change the printed text (nor the handler call)

The token lists are generated from `src/disassembler.cpp` on every run (`Generated/DisasmTable.lean`); the text of a
word is `disasmEntry idx operands` for the table entry the word selects.  Proved here, for the regenerated tables:

* `instr_unique` — at most one entry of the interpreter/disassembler look-up table matches a word (transferred from
  C02's `decode_unique` through `instrTable_agrees`), hence `decodeInstr_eq_of_matches`;
* `free_bit_irrelevant` — for ANY entry, flipping a bit that the entry neither compares, nor excludes on, nor passes to
  the visitor keeps the entry matching and every extracted operand value unchanged;
* `freeBits_are_unused` — on the current tables those bits are exactly the bits `decoder.h` declares `Unused<>`
  (kernel-checked entry by entry);
* `text_unused_irrelevant` — **two opcodes that differ only in an unused bit print the same token list, the same joined
  text and have the same need for a second word, for every second word and every `ArArpSettings`**;
  `handler_unused_irrelevant` — and the interpreter model dispatches the same handler on the same operand values
  ("bits the encoding marks as unused never change what an instruction does or how it is printed");
* `text_second_word_only_if_expanded` — the text of a one-word form does not depend on the second word.
-/
namespace Teakra
open Sys

/-! ## uniqueness for the look-up table -/

private theorem filter_len_agree {α β σ : Type} (f : α → σ) (g : β → σ) (p : α → Bool) (q : β → Bool)
    (hpq : ∀ a b, f a = g b → p a = q b) :
    ∀ (l₁ : List α) (l₂ : List β), l₁.map f = l₂.map g → (l₁.filter p).length = (l₂.filter q).length
  | [], [], _ => rfl
  | [], _ :: _, h => by simp at h
  | _ :: _, [], h => by simp at h
  | a :: l₁, b :: l₂, h => by
    simp only [List.map_cons, List.cons.injEq] at h
    obtain ⟨hab, ht⟩ := h
    have ih := filter_len_agree f g p q hpq l₁ l₂ ht
    rw [List.filter_cons, List.filter_cons, hpq a b hab]
    cases q b <;> simp [ih]

/-- **At most one entry matches a word** — for the table the interpreter and the disassembler model look words up in. -/
theorem instr_unique (w : BitVec 16) : (instrTable.filter (·.matchesWord w.toNat)).length ≤ 1 := by
  have h := filter_len_agree InstrPat.sig Decode.Pat.sig (·.matchesWord w.toNat) (·.matches w)
    (fun a b h => by simpa [Decode.Pat.matches] using matchesWord_eq a b h w.toNat) _ _ instrTable_agrees
  rw [h]
  exact Decode.decode_unique w

private theorem eq_of_filter_le_one {α : Type} {p : α → Bool} {l : List α} (h : (l.filter p).length ≤ 1)
    {a b : α} (ha : a ∈ l) (hb : b ∈ l) (pa : p a = true) (pb : p b = true) : a = b := by
  have ha' : a ∈ l.filter p := List.mem_filter.2 ⟨ha, pa⟩
  have hb' : b ∈ l.filter p := List.mem_filter.2 ⟨hb, pb⟩
  match hl : l.filter p, h, ha', hb' with
  | [], _, ha', _ => simp at ha'
  | [x], _, ha', hb' =>
    simp only [List.mem_singleton] at ha' hb'
    rw [ha', hb']
  | _ :: _ :: _, h, _, _ => simp at h

/-- A matching entry is *the* entry the look-up returns. -/
theorem decodeInstr_eq_of_matches {p : InstrPat} (w : BitVec 16) (hp : p ∈ instrTable)
    (hm : p.matchesWord w.toNat = true) : decodeInstr w.toNat = some p := by
  unfold decodeInstr
  cases h : instrTable.find? (·.matchesWord w.toNat) with
  | none =>
    rw [List.find?_eq_none] at h
    exact absurd hm (h p hp)
  | some q =>
    have hq := List.mem_of_find?_eq_some h
    have hqm : q.matchesWord w.toNat = true := by simpa using List.find?_some h
    rw [eq_of_filter_le_one (instr_unique w) hq hp hqm hm]

theorem decodeInstr_some {p : InstrPat} {n : Nat} (h : decodeInstr n = some p) :
    p ∈ instrTable ∧ p.matchesWord n = true := by
  unfold decodeInstr at h
  exact ⟨List.mem_of_find?_eq_some h, by simpa using List.find?_some h⟩

/-! ## free bits -/

private theorem flip_and {n m u : Nat} (h : m.testBit u = false) : (n ^^^ 2 ^ u) &&& m = n &&& m := by
  apply Nat.eq_of_testBit_eq; intro i
  simp only [Nat.testBit_and, Nat.testBit_xor, Nat.testBit_two_pow]
  by_cases hb : u = i
  · subst hb; simp [h]
  · simp [hb]

private theorem flip_field {n u pos bits : Nat} (h : u < pos ∨ pos + bits ≤ u) :
    ((n ^^^ 2 ^ u) >>> pos) % 2 ^ bits = (n >>> pos) % 2 ^ bits := by
  apply Nat.eq_of_testBit_eq; intro i
  simp only [Nat.testBit_mod_two_pow, Nat.testBit_shiftRight, Nat.testBit_xor, Nat.testBit_two_pow]
  by_cases hi : i < bits
  · have : ¬ u = pos + i := by omega
    simp [hi, this]
  · simp [hi]

private theorem all_congr_mem {α : Type} {f g : α → Bool} : ∀ {l : List α}, (∀ a ∈ l, f a = g a) → l.all f = l.all g
  | [], _ => rfl
  | a :: l, h => by
    simp only [List.all_cons, h a (List.mem_cons_self ..)]
    rw [all_congr_mem (fun b hb => h b (List.mem_cons_of_mem _ hb))]

/-- **Flipping a free bit changes neither the match nor any operand value** — for any entry whatsoever. -/
theorem free_bit_irrelevant (p : InstrPat) {u : Nat} (hu : u ∈ p.freeBits) (n e : Nat) :
    p.matchesWord (n ^^^ 2 ^ u) = p.matchesWord n ∧ p.extract (n ^^^ 2 ^ u) e = p.extract n e := by
  simp only [InstrPat.freeBits, List.mem_filter, Bool.and_eq_true, Bool.not_eq_true', List.all_eq_true,
    Bool.or_eq_true, beq_iff_eq, decide_eq_true_eq] at hu
  obtain ⟨_, ⟨hmask, hrej⟩, hf⟩ := hu
  constructor
  · unfold InstrPat.matchesWord
    rw [flip_and hmask]
    congr 1
    apply all_congr_mem
    intro r hr
    obtain ⟨m, x⟩ := r
    have := hrej (m, x) hr
    simp only at this
    simp [flip_and this]
  · unfold InstrPat.extract
    apply List.map_congr_left
    intro f hfm
    obtain ⟨pos, bits⟩ := f
    have := hf (pos, bits) hfm
    simp only at this
    by_cases h16 : pos = 16
    · simp [h16]
    · have hb : (pos == 16) = false := by simpa using h16
      simp only [hb, Bool.false_eq_true, if_false]
      rcases this with (h | h) | h
      · exact absurd h h16
      · exact flip_field (Or.inl h)
      · exact flip_field (Or.inr h)

/-- On the current tables the free bits of an entry are exactly the bits `decoder.h` declares `Unused<>`. -/
theorem freeBits_are_unused :
    instrTable.map (fun p => p.freeBits) = Decode.table.map (fun p => (List.range 16).filter (p.unusedBits.contains ·)) := by
  have : (instrTable.map (fun p => p.freeBits) ==
      Decode.table.map (fun p => (List.range 16).filter (p.unusedBits.contains ·))) = true := by decide +kernel
  exact eq_of_beq this

private theorem toNat_flip {w : BitVec 16} {u : Nat} (hu : u < 16) :
    (w ^^^ Decode.bit u).toNat = w.toNat ^^^ 2 ^ u := by
  have : 2 ^ u < 2 ^ 16 := Nat.pow_lt_pow_right (by decide) hu
  simp [Decode.bit, BitVec.toNat_xor, BitVec.toNat_twoPow, Nat.mod_eq_of_lt this]

private theorem freeBits_lt {p : InstrPat} {u : Nat} (hu : u ∈ p.freeBits) : u < 16 := by
  simp only [InstrPat.freeBits, List.mem_filter, List.mem_range] at hu
  exact hu.1

/-- The look-up returns the same entry, and the entry extracts the same operand values, for two words that differ in
a free bit of the entry. -/
theorem decode_extract_unused {w : BitVec 16} {p : InstrPat} (h : decodeInstr w.toNat = some p) {u : Nat}
    (hu : u ∈ p.freeBits) (e : Nat) :
    decodeInstr (w ^^^ Decode.bit u).toNat = some p ∧
      p.extract (w ^^^ Decode.bit u).toNat e = p.extract w.toNat e := by
  obtain ⟨hp, hm⟩ := decodeInstr_some h
  have hfree := free_bit_irrelevant p hu w.toNat e
  rw [toNat_flip (freeBits_lt hu)]
  refine ⟨?_, hfree.2⟩
  have := decodeInstr_eq_of_matches (w ^^^ Decode.bit u) hp (by rw [toNat_flip (freeBits_lt hu), hfree.1]; exact hm)
  rwa [toNat_flip (freeBits_lt hu)] at this

private theorem mod_word (w : BitVec 16) : w.toNat % 65536 = w.toNat := Nat.mod_eq_of_lt w.isLt

/-- **Unused bits never change how an instruction is printed**: same token list, same joined text, same need for a
second word — for every second word and every `ArArpSettings`. -/
theorem text_unused_irrelevant {w : BitVec 16} {p : InstrPat} (h : decodeInstr w.toNat = some p) {u : Nat}
    (hu : u ∈ p.freeBits) (e : Nat) (ar : Option ArArp) :
    disTokens (w ^^^ Decode.bit u).toNat e ar = disTokens w.toNat e ar ∧
    disDo (w ^^^ Decode.bit u).toNat e ar = disDo w.toNat e ar ∧
    disNeedExpansion (w ^^^ Decode.bit u).toNat = disNeedExpansion w.toNat := by
  obtain ⟨hd, hx⟩ := decode_extract_unused h hu (e % 65536)
  have ht : disTokens (w ^^^ Decode.bit u).toNat e ar = disTokens w.toNat e ar := by
    unfold disTokens
    rw [mod_word, mod_word, hd, h]
    simp only [hx]
  refine ⟨ht, ?_, ?_⟩
  · unfold disDo; rw [ht]
  · unfold disNeedExpansion
    rw [mod_word, mod_word, hd, h]

/-- **Unused bits never change what an instruction does**: the interpreter model calls the same handler on the same
operand values (what the handler then does is a function of exactly these). -/
theorem handler_unused_irrelevant {w : BitVec 16} {p : InstrPat} (h : decodeInstr w.toNat = some p) {u : Nat}
    (hu : u ∈ p.freeBits) (e : Nat) :
    (decodeInstr (w ^^^ Decode.bit u).toNat).map (fun q => dispatch q.idx (q.extract (w ^^^ Decode.bit u).toNat e))
      = (decodeInstr w.toNat).map (fun q => dispatch q.idx (q.extract w.toNat e)) := by
  obtain ⟨hd, hx⟩ := decode_extract_unused h hu e
  rw [hd, h]
  simp only [Option.map_some, hx]

/-- The second word reaches the text only through an operand at position 16: a one-word form prints the same for
every second word. -/
theorem text_second_word_only_if_expanded {n : Nat} {p : InstrPat} (h : decodeInstr (n % 65536) = some p)
    (hno : p.fields.all (fun f => f.1 != 16) = true) (e e' : Nat) (ar : Option ArArp) :
    disTokens n e ar = disTokens n e' ar := by
  unfold disTokens
  rw [h]
  have : p.extract (n % 65536) (e % 65536) = p.extract (n % 65536) (e' % 65536) := by
    unfold InstrPat.extract
    apply List.map_congr_left
    intro f hf
    have := (List.all_eq_true.1 hno) f hf
    obtain ⟨pos, bits⟩ := f
    simp only [bne_iff_ne, ne_eq] at this
    have hb : (pos == 16) = false := by simpa using this
    simp [hb]
  simp only [this]

/-- In the current table an entry has a position-16 field exactly when it is marked `expanded`. -/
theorem expanded_iff_field16 : instrTable.all (fun p => p.expanded == p.fields.any (fun f => f.1 == 16)) = true := by
  decide +kernel

/-! ## non-vacuity -/

/-- `0x5F48` / `0x5F49` (`bkreprst [sp]`) differ in a declared-unused bit: bit 0 is free for that entry … -/
example : (decodeInstr 0x5F48).map (·.freeBits) = some [0, 1] := by decide +kernel
/-- … and both print `bkreprst [sp]`. -/
example : disTokens 0x5F48 0 none = ["bkreprst", "[sp]"] ∧ disTokens 0x5F49 0 none = ["bkreprst", "[sp]"] := by
  decide +kernel
/-- An immediate operand in the second word is printed as the C++ prints it (`alu Imm16`: `or 0x1234 a0`). -/
example : disTokens 0x80C0 0x1234 none = ["or", "0x1234", "a0"] ∧ disTokens 0x0000 0 none = ["nop"] := by
  decide +kernel

end Teakra
