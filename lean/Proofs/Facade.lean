import TeakraModel.Periph
import TeakraModel.Generated.Facade
/-!
# The facade wiring and Reset list of `src/teakra.cpp`, translated on every run

`TeakraModel/Generated/Facade.lean` is rewritten by `tools/translate_facade.py` from the tree under test.  The theorems
are re-checked by the kernel over that table:

* `wiring_complete` – the constructor of `Teakra::Impl` registers an interrupt-raising handler at exactly the nine sites
  the model wires (both timers, the three CPU→DSP data channels, the CPU→DSP semaphore, both audio ports, the DMA),
  each exactly once, and nowhere else; the ICU's callbacks are bound to the core's latches (`icuToCore`) and the MMIO
  region is attached to the memory interface;
* `wiring_irq_eq_model` – every site raises the request number the model uses (`irqTimer`, `irqApbp`, `irqBtdmp`,
  `irqDma`): the composition theorems of C07 / C14 / C15 / C16 ("the source raises request n, request n reaches the
  core") are about the same numbers as the code;
* `reset_covers_members` – every data member of `struct Teakra::Impl` that holds emulator state is reset by
  `Impl::Reset` (each array element separately), and a member the translator does not know breaks the obligation: the
  Reset ≡ fresh theorems of C17 quantify over the same set of components as the code;
* `reset_no_unknown` – `Impl::Reset` contains nothing but the memory clear and `Reset()` calls on members.
-/
namespace Teakra

def expectedSites : List HSite :=
  [.timer 0, .timer 1, .apbpData 0, .apbpData 1, .apbpData 2, .apbpSem, .btdmp 0, .btdmp 1, .dma]

/-- The request number the model raises for a site (`Periph.lean`). -/
def HSite.modelIrq : HSite → Option Nat
  | .timer 0 => some (irqTimer 0)
  | .timer 1 => some (irqTimer 1)
  | .apbpData _ => some irqApbp
  | .apbpSem => some irqApbp
  | .btdmp _ => some irqBtdmp
  | .dma => some irqDma
  | _ => none

/-- What `Reset` has to reach for a member to be back in its constructed state. -/
def FMember.resetTargets : FMember → List RTarget
  | .coreTiming => []            -- holds only the references to the timers / audio ports it ticks
  | .sharedMemory => [.memory]
  | .miu => [.miu]
  | .icu => [.icu]
  | .apbpFromCpu => [.apbpFromCpu]
  | .apbpFromDsp => [.apbpFromDsp]
  | .timer => [.timer 0, .timer 1]
  | .ahbm => [.ahbm]
  | .dma => [.dma]
  | .btdmp => [.btdmp 0, .btdmp 1]
  | .mmio => [.mmio]
  | .memoryInterface => []       -- two references, no state of its own
  | .processor => [.processor]
  | .other id => [.other id]     -- unknown member: never covered

def RTarget.isOther : RTarget → Bool
  | .other _ => true
  | _ => false

open Generated in
theorem wiring_complete :
    (expectedSites.all fun s => (wiring.filter (fun p => p.1 = s)).length = 1) = true ∧
    wiring.length = expectedSites.length ∧ icuToCore = true ∧ setMmio = true := by decide +kernel

open Generated in
theorem wiring_irq_eq_model : (wiring.all fun p => p.1.modelIrq = some p.2) = true := by decide +kernel

open Generated in
theorem reset_covers_members :
    (members.all fun m => m.resetTargets.all fun t => resetCalls.contains t) = true := by decide +kernel

open Generated in
theorem reset_no_unknown : (resetCalls.any RTarget.isOther) = false ∧ resetCalls.Nodup := by decide +kernel

/-- In the words of the properties: a registered site raises exactly the model's request number. -/
theorem site_irq {s : HSite} {n : Nat} (h : (s, n) ∈ Generated.wiring) : s.modelIrq = some n := by
  have := wiring_irq_eq_model
  rw [List.all_eq_true] at this
  simpa using this (s, n) h

/-- Every state-holding member is reached by Reset. -/
theorem member_reset {m : FMember} (hm : m ∈ Generated.members) {t : RTarget} (ht : t ∈ m.resetTargets) :
    t ∈ Generated.resetCalls := by
  have := reset_covers_members
  rw [List.all_eq_true] at this
  have h2 := this m hm
  rw [List.all_eq_true] at h2
  simpa using h2 t ht

example : (HSite.timer 0, 0xA) ∈ Generated.wiring := by decide +kernel
example : FMember.timer ∈ Generated.members ∧ RTarget.timer 1 ∈ FMember.timer.resetTargets := by decide +kernel

end Teakra
