import Proofs.C09.Step
/-!
# C09 — the decoder on the opcodes used by the loop theorems (`rep`, `bkrep`, `break`, `nop`, `modr`)

As in `Proofs/C06Sys/Decode.lean`: the kernel evaluates `decodeInstr` on the finitely many opcodes
of a family (`decide +kernel`), never the 65536-entry `decoderArray`.
-/
namespace Teakra
open Exec ExecLemmas Interp Sys

/-- From the decoder's view of a one-word opcode to `Fetches1`. -/
theorem fetches1_of_view (b : Bus) (a : U32) (w : U16) (accs : List Access) (idx : Nat)
    (fields : List (Nat × Nat)) (hread : b.programRead a = .ok (w, accs))
    (hv : (decodeInstr w.toNat).map patView = some (idx, false, fields)) :
    Fetches1 b a (dispatch idx
      (fields.map fun (pos, bits) => if pos == 16 then 0 % 2 ^ 16 else (w.toNat >>> pos) % 2 ^ bits)) := by
  cases hd : decodeInstr w.toNat with
  | none => rw [hd] at hv; cases hv
  | some p =>
    rw [hd] at hv
    simp only [Option.map_some, patView, Option.some.injEq, Prod.mk.injEq] at hv
    refine ⟨w, accs, p, hread, by rw [decoderArray_getD _ w.isLt, hd], hv.2.1, ?_⟩
    rw [hv.1]
    unfold InstrPat.extract
    rw [hv.2.2]

/-- From the decoder's view of a two-word opcode to `Fetches2`. -/
theorem fetches2_of_view (b : Bus) (a a' : U32) (w w2 : U16) (accs accs2 : List Access) (idx : Nat)
    (fields : List (Nat × Nat)) (hread : b.programRead a = .ok (w, accs))
    (hread2 : b.programRead a' = .ok (w2, accs2))
    (hv : (decodeInstr w.toNat).map patView = some (idx, true, fields)) :
    Fetches2 b a a' (dispatch idx
      (fields.map fun (pos, bits) => if pos == 16 then w2.toNat % 2 ^ 16 else (w.toNat >>> pos) % 2 ^ bits)) := by
  cases hd : decodeInstr w.toNat with
  | none => rw [hd] at hv; cases hv
  | some p =>
    rw [hd] at hv
    simp only [Option.map_some, patView, Option.some.injEq, Prod.mk.injEq] at hv
    refine ⟨w, w2, accs, accs2, p, hread, by rw [decoderArray_getD _ w.isLt, hd], hv.2.1, hread2, ?_⟩
    rw [hv.1]
    unfold InstrPat.extract
    rw [hv.2.2]

theorem decode_nop_fin : (decodeInstr 0).map patView = some (0, false, []) := by decide +kernel

theorem decode_rep_imm8_fin : ∀ k : Fin 256,
    (decodeInstr (0x0C00 + k.val)).map patView = some (153, false, [(0, 8)]) := by
  decide +kernel

theorem decode_rep_r6_fin : (decodeInstr 2).map patView = some (155, false, []) := by decide +kernel

theorem decode_break_fin : (decodeInstr 0xD3C0).map patView = some (106, false, []) := by decide +kernel

theorem decode_modr_fin : ∀ k : Fin 32,
    (decodeInstr (0x0080 + k.val)).map patView = some (176, false, [(0, 3), (3, 2)]) := by
  decide +kernel

theorem decode_bkrep_imm8_fin : ∀ k : Fin 256,
    (decodeInstr (0x5C00 + k.val)).map patView = some (89, true, [(0, 8), (16, 16)]) := by
  decide +kernel

/-- `nop` is the word 0. -/
theorem fetches_nop (b : Bus) (a : U32) (accs : List Access) (hread : b.programRead a = .ok (0, accs)) :
    Fetches1 b a Exec.nop :=
  fetches1_of_view b a 0 accs 0 [] hread decode_nop_fin

/-- `rep #k` is the word `0x0C00 + k`. -/
theorem fetches_rep_imm8 (b : Bus) (a : U32) (accs : List Access) (k : Nat) (hk : k < 256)
    (hread : b.programRead a = .ok (BitVec.ofNat 16 (0x0C00 + k), accs)) :
    Fetches1 b a (Exec.rep_Imm8 k) := by
  have ht : (BitVec.ofNat 16 (0x0C00 + k)).toNat = 0x0C00 + k := by
    rw [BitVec.toNat_ofNat]; omega
  have h := fetches1_of_view b a _ accs 153 [(0, 8)] hread (by rw [ht]; exact decode_rep_imm8_fin ⟨k, hk⟩)
  have e : (0x0C00 + k) >>> 0 % 2 ^ 8 = k := by rw [Nat.shiftRight_zero]; omega
  simp only [List.map_cons, List.map_nil, ht] at h
  rw [show (0 == 16) = false from rfl] at h
  simp only [Bool.false_eq_true, if_false, e] at h
  exact h

/-- `rep r6` is the word 2. -/
theorem fetches_rep_r6 (b : Bus) (a : U32) (accs : List Access) (hread : b.programRead a = .ok (2, accs)) :
    Fetches1 b a Exec.rep_r6 :=
  fetches1_of_view b a 2 accs 155 [] hread decode_rep_r6_fin

/-- `break` is the word `0xD3C0`. -/
theorem fetches_break (b : Bus) (a : U32) (accs : List Access) (hread : b.programRead a = .ok (0xD3C0, accs)) :
    Fetches1 b a Exec.break_ :=
  fetches1_of_view b a 0xD3C0 accs 106 [] hread decode_break_fin

/-- `modr (Rn), step` is the word `0x0080 + 8 * step + n`. -/
theorem fetches_modr (b : Bus) (a : U32) (accs : List Access) (n st : Nat) (hn : n < 8) (hst : st < 4)
    (hread : b.programRead a = .ok (BitVec.ofNat 16 (0x0080 + (8 * st + n)), accs)) :
    Fetches1 b a (Exec.modr_Rn_StepZIDS n st) := by
  have ht : (BitVec.ofNat 16 (0x0080 + (8 * st + n))).toNat = 0x0080 + (8 * st + n) := by
    rw [BitVec.toNat_ofNat]; omega
  have h := fetches1_of_view b a _ accs 176 [(0, 3), (3, 2)] hread
    (by rw [ht]; exact decode_modr_fin ⟨8 * st + n, by omega⟩)
  have e1 : (0x0080 + (8 * st + n)) >>> 0 % 2 ^ 3 = n := by rw [Nat.shiftRight_zero]; omega
  have e2 : (0x0080 + (8 * st + n)) >>> 3 % 2 ^ 2 = st := by rw [Nat.shiftRight_eq_div_pow]; omega
  simp only [List.map_cons, List.map_nil, ht] at h
  rw [show (0 == 16) = false from rfl, show (3 == 16) = false from rfl] at h
  simp only [Bool.false_eq_true, if_false, e1, e2] at h
  exact h

/-- `bkrep #k, addr16` is the word `0x5C00 + k` followed by the address word. -/
theorem fetches_bkrep_imm8 (b : Bus) (a a' : U32) (accs accs2 : List Access) (k : Nat) (hk : k < 256)
    (w2 : U16) (hread : b.programRead a = .ok (BitVec.ofNat 16 (0x5C00 + k), accs))
    (hread2 : b.programRead a' = .ok (w2, accs2)) :
    Fetches2 b a a' (Exec.bkrep_Imm8_Address16 k w2.toNat) := by
  have ht : (BitVec.ofNat 16 (0x5C00 + k)).toNat = 0x5C00 + k := by
    rw [BitVec.toNat_ofNat]; omega
  have h := fetches2_of_view b a a' _ w2 accs accs2 89 [(0, 8), (16, 16)] hread hread2
    (by rw [ht]; exact decode_bkrep_imm8_fin ⟨k, hk⟩)
  have e : (0x5C00 + k) >>> 0 % 2 ^ 8 = k := by rw [Nat.shiftRight_zero]; omega
  have e2 : w2.toNat % 2 ^ 16 = w2.toNat := Nat.mod_eq_of_lt w2.isLt
  simp only [List.map_cons, List.map_nil, ht] at h
  rw [show (0 == 16) = false from rfl, show (16 == 16) = true from rfl] at h
  simp only [Bool.false_eq_true, if_false, if_true, e, e2] at h
  exact h

end Teakra
