import Proofs.C09.Nest
/-!
# C09, part C (1) — `StoreBlockRepeat` / `RestoreBlockRepeat`: closed forms

`busWrite` / `busRead` are `MemoryInterface::DataWrite` / `DataRead` as functions on the machine
state; they never look at or change the register file.  The two handlers are then: four bus
accesses at consecutive addresses below / above the address register, and a pure function on the
register file (`storePop`, `restoreShift` + `restoreRegs`).
-/
namespace Teakra
open Exec ExecLemmas Interp Sys

/-- `mem.DataWrite(addr, v)` on the machine state. -/
def busWrite (c : Core) (addr v : U16) : Except Stop Core :=
  match c.bus.dataWrite addr v false with
  | .ok (bus, evs, accs) => .ok (({ c with bus := bus, log := accs.reverse ++ c.log } : Core).emit evs)
  | .error e => .error (.abort e)

/-- `mem.DataRead(addr)` on the machine state. -/
def busRead (c : Core) (addr : U16) : Except Stop (U16 × Core) :=
  match c.bus.dataRead addr false with
  | .ok (v, bus, evs, accs) => .ok (v, ({ c with bus := bus, log := accs.reverse ++ c.log } : Core).emit evs)
  | .error e => .error (.abort e)

theorem dataWrite_run9 (addr v : U16) (c : Core) :
    (dataWrite addr v).run c = (busWrite c addr v).map fun c' => ((), c') := by
  unfold dataWrite busWrite
  rw [run_bind, run_get, except_ok_bind, fst_mk, snd_mk, run_bind]
  cases c.bus.dataWrite addr v false with
  | error e => rfl
  | ok x => obtain ⟨bus, evs, accs⟩ := x; rfl

theorem dataRead_run9 (addr : U16) (c : Core) : (dataRead addr).run c = busRead c addr := by
  unfold dataRead busRead
  rw [run_bind, run_get, except_ok_bind, fst_mk, snd_mk, run_bind]
  cases c.bus.dataRead addr false with
  | error e => rfl
  | ok x => obtain ⟨v, bus, evs, accs⟩ := x; rfl

theorem signal_regs (c : Core) (r : Regs) (ev : PEvent) :
    ({ c with regs := r } : Core).signal ev = { c.signal ev with regs := r } := by
  cases ev <;> simp only [Core.signal] <;> (try split) <;> rfl

theorem foldl_signal_regs (evs : List PEvent) (c : Core) (r : Regs) :
    evs.foldl Core.signal { c with regs := r } = { evs.foldl Core.signal c with regs := r } := by
  induction evs generalizing c with
  | nil => rfl
  | cons ev t ih => rw [List.foldl_cons, List.foldl_cons, signal_regs, ih]

theorem emit_regs (c : Core) (r : Regs) (evs : List PEvent) :
    ({ c with regs := r } : Core).emit evs = { c.emit evs with regs := r } := by
  unfold Core.emit
  rw [foldl_signal_regs]

theorem foldl_signal_keeps (evs : List PEvent) (c : Core) : (evs.foldl Core.signal c).regs = c.regs := by
  induction evs generalizing c with
  | nil => rfl
  | cons ev t ih =>
    rw [List.foldl_cons, ih]
    cases ev <;> simp only [Core.signal] <;> (try split) <;> rfl

theorem emit_keeps (c : Core) (evs : List PEvent) : (c.emit evs).regs = c.regs := by
  unfold Core.emit
  exact foldl_signal_keeps evs c

/-- The bus does not look at the register file … -/
theorem busWrite_regs (c : Core) (r : Regs) (addr v : U16) :
    busWrite { c with regs := r } addr v = (busWrite c addr v).map fun c' => { c' with regs := r } := by
  unfold busWrite
  show (match c.bus.dataWrite addr v false with | .ok (bus, evs, accs) => _ | .error e => _) = _
  cases c.bus.dataWrite addr v false with
  | error e => rfl
  | ok x =>
    obtain ⟨bus, evs, accs⟩ := x
    show Except.ok _ = Except.ok _
    exact congrArg Except.ok (emit_regs { c with bus := bus, log := accs.reverse ++ c.log } r evs)

theorem busRead_regs (c : Core) (r : Regs) (addr : U16) :
    busRead { c with regs := r } addr = (busRead c addr).map fun x => (x.1, { x.2 with regs := r }) := by
  unfold busRead
  show (match c.bus.dataRead addr false with | .ok (v, bus, evs, accs) => _ | .error e => _) = _
  cases c.bus.dataRead addr false with
  | error e => rfl
  | ok x =>
    obtain ⟨v, bus, evs, accs⟩ := x
    show Except.ok _ = Except.ok _
    exact congrArg (fun z => Except.ok (v, z)) (emit_regs { c with bus := bus, log := accs.reverse ++ c.log } r evs)

/-- … and does not change it. -/
theorem busWrite_keeps (c c' : Core) (addr v : U16) (h : busWrite c addr v = .ok c') : c'.regs = c.regs := by
  unfold busWrite at h
  cases hd : c.bus.dataWrite addr v false with
  | error e => rw [hd] at h; cases h
  | ok x =>
    obtain ⟨bus, evs, accs⟩ := x
    rw [hd] at h
    cases h
    exact emit_keeps _ _

theorem busRead_keeps (c c' : Core) (addr v : U16) (h : busRead c addr = .ok (v, c')) : c'.regs = c.regs := by
  unfold busRead at h
  cases hd : c.bus.dataRead addr false with
  | error e => rw [hd] at h; cases h
  | ok x =>
    obtain ⟨v', bus, evs, accs⟩ := x
    rw [hd] at h
    cases h
    exact emit_keeps _ _

end Teakra
