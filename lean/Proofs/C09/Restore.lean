import Proofs.C09.FrameRun
/-!
# C09, part C (3) — closed form of `RestoreBlockRepeat`
-/
namespace Teakra
open Exec ExecLemmas Interp Sys

/-- `RestoreBlockRepeat`, first step: with `lp` set, `ASSERT(bcn <= 3)`, the frames move up one
slot (`std::copy_backward`) and `bcn` is incremented. -/
def restoreShift (r : Regs) : Except Stop Regs :=
  if r.lp != 0 then
    if r.bcn.toNat ≤ 3 then
      .ok { r with bkrep := Vector.ofFn fun (k : Fin 4) =>
                     if 1 ≤ k.val ∧ k.val ≤ r.bcn.toNat then r.bkrep.toArray.getD (k.val - 1) {} else r.bkrep[k],
                   bcn := r.bcn + 1 }
    else .error (.abort .assert)
  else .ok r

/-- Bit 15 of the flag word. -/
def validOf (flag : U16) : U16 := ((flag.setWidth 32 : U32) >>> 15).setWidth 16

/-- Second step, after the flag word has been read: inside a loop the saved frame must be valid
(`ASSERT`); outside, a valid saved frame switches the loop state on (`bcn = 1`, `lp = 1`). -/
def restoreValid (r : Regs) (flag : U16) : Except Stop Regs :=
  if r.lp != 0 then (if validOf flag != 0 then .ok r else .error (.abort .assert))
  else .ok (if validOf flag != 0 then { r with bcn := 1, lp := 1 } else r)

def unpackEnd (flag e : U16) : U32 := e.setWidth 32 ||| ((((flag.setWidth 32 : U32) >>> 8) &&& 3) <<< 16)
def unpackStart (flag s : U16) : U32 := s.setWidth 32 ||| (((flag.setWidth 32 : U32) &&& 3) <<< 16)

/-- Last step: frame 0 is what the four words say. -/
def restoreFrame (r : Regs) (flag e s lc : U16) : Regs :=
  { r with bkrep := r.bkrep.set 0 { start := unpackStart flag s, end_ := unpackEnd flag e, lc := lc } }

theorem get_setFrame' {ar : Exec.RegRef} (hl : ar.Lawful) (r : Regs) (i : Nat) (f : BkFrame → BkFrame) :
    ar.get (setFrame' r i f) = ar.get r := by
  unfold setFrame'; split
  · exact hl.get_bkrep _ _
  · rfl

theorem setFrame'_zero (r : Regs) (f : BkFrame → BkFrame) :
    setFrame' r 0 f = { r with bkrep := r.bkrep.set 0 (f r.bkrep[0]) } := setFrame'_pos r 0 f (by omega)

/-- The frame the four words describe (`flag` already widened to 32 bits, as in the C++). -/
def frameOf (flag : U32) (e s lc : U16) : BkFrame :=
  { start := s.setWidth 32 ||| ((flag &&& 3) <<< 16), end_ := e.setWidth 32 ||| (((flag >>> 8) &&& 3) <<< 16), lc := lc }

theorem setFrame'_set {ar : Exec.RegRef} (hl : ar.Lawful) (r : Regs) (v : U16) (f : BkFrame → BkFrame) :
    setFrame' (ar.set r v) 0 f = ar.set (setFrame' r 0 f) v := by
  have h : (ar.set r v).bkrep = r.bkrep := hl.bkrep_set r v
  have e2 : ar.set (setFrame' r 0 f) v = { (ar.set r v) with bkrep := r.bkrep.set 0 (f r.bkrep[0]) } := by
    rw [setFrame'_zero]; exact hl.set_bkrep _ _ _
  rw [setFrame'_zero, e2]
  exact congrArg (fun bk : Vector BkFrame 4 => ({ (ar.set r v) with bkrep := bk.set 0 (f bk[0]) } : Regs)) h

theorem setFrame'_three (R : Regs) (flag : U32) (e s lc : U16) :
    setFrame' (setFrame' (setFrame' R 0 fun f => { f with end_ := e.setWidth 32 ||| (((flag >>> 8) &&& 3) <<< 16) })
      0 fun f => { f with start := s.setWidth 32 ||| ((flag &&& 3) <<< 16) }) 0 (fun f => { f with lc := lc }) =
    { R with bkrep := R.bkrep.set 0 (frameOf flag e s lc) } := by
  rw [setFrame'_zero, setFrame'_zero, setFrame'_zero]
  simp only [Vector.getElem_set_self, Vector.set_set, frameOf]

/-- The three reads after the flag word, from a state with registers `R`. -/
theorem restoreReads_run {ar : Exec.RegRef} (hl : ar.Lawful) (c : Core) (R : Regs) (flag : U32) :
    StateT.run (do
      let e ← readPostInc' ar
      modifyRegs fun r => setFrame' r 0 fun f => { f with end_ := e.setWidth 32 ||| (((flag >>> 8) &&& 3) <<< 16) }
      let s ← readPostInc' ar
      modifyRegs fun r => setFrame' r 0 fun f => { f with start := s.setWidth 32 ||| ((flag &&& 3) <<< 16) }
      let lc ← readPostInc' ar
      modifyRegs fun r => setFrame' r 0 fun f => { f with lc := lc } : Exec Unit) { c with regs := R } =
    busRead c (ar.get R) >>= fun x2 =>
    busRead x2.2 (ar.get R + 1) >>= fun x3 =>
    busRead x3.2 (ar.get R + 1 + 1) >>= fun x4 =>
    .ok ((), { x4.2 with regs :=
      { (ar.set R (ar.get R + 1 + 1 + 1)) with bkrep := R.bkrep.set 0 (frameOf flag x2.1 x3.1 x4.1) } }) := by
  rw [run_bind, readPostInc'_at]
  cases busRead c (ar.get R) with
  | error e => rfl
  | ok x2 =>
    obtain ⟨e, c2⟩ := x2
    rw [map_ok, except_ok_bind, except_ok_bind, fst_mk, snd_mk, snd_mk, fst_mk, run_bind, run_modifyRegs,
      except_ok_bind, snd_mk, run_bind]
    dsimp only
    rw [readPostInc'_at, get_setFrame' hl, hl.get_set]
    cases busRead c2 (ar.get R + 1) with
    | error e => rfl
    | ok x3 =>
      obtain ⟨s, c3⟩ := x3
      rw [map_ok, except_ok_bind, except_ok_bind, fst_mk, snd_mk, snd_mk, fst_mk, run_bind, run_modifyRegs,
        except_ok_bind, snd_mk, run_bind]
      dsimp only
      rw [readPostInc'_at, get_setFrame' hl, hl.get_set]
      cases busRead c3 (ar.get R + 1 + 1) with
      | error e => rfl
      | ok x4 =>
        obtain ⟨lc, c4⟩ := x4
        rw [map_ok, except_ok_bind, except_ok_bind, fst_mk, snd_mk, snd_mk, fst_mk, run_modifyRegs]
        dsimp only
        simp only [setFrame'_set hl, hl.set_set, setFrame'_three]
        rw [hl.set_bkrep]

theorem set_bcn_lp {ar : Exec.RegRef} (hl : ar.Lawful) (r : Regs) (v x y : U16) :
    ar.set { r with bcn := x, lp := y } v = { (ar.set r v) with bcn := x, lp := y } := by
  have h1 := hl.set_lp { r with bcn := x } v y
  rw [hl.set_bcn] at h1
  exact h1

theorem get_bcn_lp {ar : Exec.RegRef} (hl : ar.Lawful) (r : Regs) (x y : U16) :
    ar.get { r with bcn := x, lp := y } = ar.get r :=
  (hl.get_lp { r with bcn := x } y).trans (hl.get_bcn r x)

theorem restoreFrame_set {ar : Exec.RegRef} (hl : ar.Lawful) (r : Regs) (v flag e s lc : U16) :
    restoreFrame (ar.set r v) flag e s lc =
      { (ar.set r v) with bkrep := r.bkrep.set 0 (frameOf (flag.setWidth 32) e s lc) } := by
  have h : (ar.set r v).bkrep = r.bkrep := hl.bkrep_set r v
  exact congrArg (fun bk : Vector BkFrame 4 =>
    ({ (ar.set r v) with bkrep := bk.set 0 (frameOf (flag.setWidth 32) e s lc) } : Regs)) h

/-- Everything after the shift, from a state with registers `R`. -/
theorem restoreRest_run {ar : Exec.RegRef} (hl : ar.Lawful) (c : Core) (R : Regs) :
    StateT.run (do
      let flag : U32 := (← readPostInc' ar).setWidth 32
      let valid : U16 := (flag >>> 15).setWidth 16
      if (← getRegs).lp != 0 then
        assert (valid != 0)
      else
        if valid != 0 then modifyRegs fun r => { r with bcn := 1, lp := 1 }
      let e ← readPostInc' ar
      modifyRegs fun r => setFrame' r 0 fun f => { f with end_ := e.setWidth 32 ||| (((flag >>> 8) &&& 3) <<< 16) }
      let s ← readPostInc' ar
      modifyRegs fun r => setFrame' r 0 fun f => { f with start := s.setWidth 32 ||| ((flag &&& 3) <<< 16) }
      let lc ← readPostInc' ar
      modifyRegs fun r => setFrame' r 0 fun f => { f with lc := lc } : Exec Unit) { c with regs := R } =
    busRead c (ar.get R) >>= fun x1 =>
    match restoreValid R x1.1 with
    | .error e => .error e
    | .ok r1 =>
      busRead x1.2 (ar.get R + 1) >>= fun x2 =>
      busRead x2.2 (ar.get R + 1 + 1) >>= fun x3 =>
      busRead x3.2 (ar.get R + 1 + 1 + 1) >>= fun x4 =>
      .ok ((), { x4.2 with regs := restoreFrame (ar.set r1 (ar.get R + 1 + 1 + 1 + 1)) x1.1 x2.1 x3.1 x4.1 }) := by
  rw [run_bind, readPostInc'_at]
  cases busRead c (ar.get R) with
  | error e => rfl
  | ok x1 =>
    obtain ⟨flag, c1⟩ := x1
    rw [map_ok, except_ok_bind, except_ok_bind]
    dsimp only
    rw [run_bind, run_getRegs, except_ok_bind, fst_mk, snd_mk, run_have]
    dsimp only
    rw [hl.lp_set]
    unfold restoreValid validOf
    by_cases hlp : (R.lp != 0) = true
    · rw [if_pos hlp, if_pos hlp]
      by_cases hv : (BitVec.setWidth 16 (BitVec.setWidth 32 flag >>> 15) != 0) = true
      · rw [if_pos hv, hv, run_bind, run_assert_true, except_ok_bind, snd_mk]
        refine (restoreReads_run hl c1 _ _).trans ?_
        rw [hl.get_set, hl.set_set, hl.bkrep_set]
        simp only [restoreFrame_set hl]
      · rw [if_neg hv]
        have hv' : (BitVec.setWidth 16 (BitVec.setWidth 32 flag >>> 15) != 0) = false := by simpa using hv
        rw [hv', run_bind, run_assert_false]
        rfl
    · rw [if_neg hlp, if_neg hlp]
      by_cases hv : (BitVec.setWidth 16 (BitVec.setWidth 32 flag >>> 15) != 0) = true
      · rw [if_pos hv, if_pos hv, run_bind, run_modifyRegs, except_ok_bind, snd_mk]
        refine (restoreReads_run hl c1 _ _).trans ?_
        dsimp only
        rw [← set_bcn_lp hl, hl.get_set, hl.set_set, hl.bkrep_set]
        simp only [restoreFrame_set hl]
      · rw [if_neg hv, if_neg hv]
        refine (restoreReads_run hl c1 _ _).trans ?_
        rw [hl.get_set, hl.set_set, hl.bkrep_set]
        simp only [restoreFrame_set hl]

/-- **`RestoreBlockRepeat`, closed form.**  With `a` the address register: shift the frames
(`restoreShift`), read the flag word at `a`, check / switch on the loop state (`restoreValid`), read
`end`, `start`, `lc` at `a+1, a+2, a+3`, leave the address register at `a + 4` and set frame 0 to
what the four words say (`restoreFrame`). -/
theorem restoreBlockRepeat_run {ar : Exec.RegRef} (hl : ar.Lawful) (c : Core) :
    (Exec.restoreBlockRepeat ar).run c =
      match restoreShift c.regs with
      | .error e => .error e
      | .ok r0 =>
        busRead c (ar.get c.regs) >>= fun x1 =>
        match restoreValid r0 x1.1 with
        | .error e => .error e
        | .ok r1 =>
          busRead x1.2 (ar.get c.regs + 1) >>= fun x2 =>
          busRead x2.2 (ar.get c.regs + 1 + 1) >>= fun x3 =>
          busRead x3.2 (ar.get c.regs + 1 + 1 + 1) >>= fun x4 =>
          .ok ((), { x4.2 with regs := restoreFrame (ar.set r1 (ar.get c.regs + 1 + 1 + 1 + 1)) x1.1 x2.1 x3.1 x4.1 }) := by
  rw [restoreBlockRepeat_eq]
  unfold restoreBlockRepeat'
  rw [run_bind, run_getRegs, except_ok_bind, fst_mk, snd_mk, run_have]
  unfold restoreShift
  by_cases hlp : (c.regs.lp != 0) = true
  · rw [if_pos hlp, if_pos hlp, run_bind, run_getRegs, except_ok_bind, fst_mk, snd_mk, run_bind]
    by_cases hb : c.regs.bcn.toNat ≤ 3
    · rw [if_pos hb, decide_eq_true hb, run_assert_true, except_ok_bind, snd_mk, run_bind, run_modifyRegs,
        except_ok_bind, snd_mk]
      refine (restoreRest_run hl c _).trans ?_
      dsimp only
      have hg : ∀ (bk : Vector BkFrame 4) (x : U16),
          ar.get ({ c.regs with bkrep := bk, bcn := x } : Regs) = ar.get c.regs := fun bk x =>
        (hl.get_bcn { c.regs with bkrep := bk } x).trans (hl.get_bkrep c.regs bk)
      rw [hg]
    · rw [if_neg hb, decide_eq_false hb, run_assert_false]
      rfl
  · rw [if_neg hlp, if_neg hlp]
    exact restoreRest_run hl c c.regs

end Teakra
