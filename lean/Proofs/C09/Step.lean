import Proofs.C09.Plain
/-!
# C09, part B (2) — one loop body on a plain instruction

With no latch pending, the loop body on a plain instruction is: log the fetch, apply the two
bookkeeping functions to the register file, run the handler.  The interrupt block does nothing when
interrupts are disabled (`ie = 0`) or a `rep` is running.
-/
namespace Teakra
open Exec ExecLemmas Interp Sys

/-- The program word at `a` is a one-word instruction whose handler is `h`. -/
def Fetches1 (b : Bus) (a : U32) (h : Exec Unit) : Prop :=
  ∃ (w : U16) (accs : List Access) (p : InstrPat),
    b.programRead a = .ok (w, accs) ∧ decoderArray.getD w.toNat none = some p ∧ p.expanded = false ∧
    h = dispatch p.idx (p.extract w.toNat 0)

/-- The program words at `a`, `a'` are a two-word instruction whose handler is `h`. -/
def Fetches2 (b : Bus) (a a' : U32) (h : Exec Unit) : Prop :=
  ∃ (w w2 : U16) (accs accs2 : List Access) (p : InstrPat),
    b.programRead a = .ok (w, accs) ∧ decoderArray.getD w.toNat none = some p ∧ p.expanded = true ∧
    b.programRead a' = .ok (w2, accs2) ∧ h = dispatch p.idx (p.extract w.toNat w2.toNat)

theorem Fetches1.of_eq {b b0 : Bus} {a : U32} {h : Exec Unit} (hf : Fetches1 b0 a h)
    (he : b.programRead a = b0.programRead a) : Fetches1 b a h := by
  obtain ⟨w, accs, p, h1, h2⟩ := hf
  exact ⟨w, accs, p, he.trans h1, h2⟩

theorem Fetches2.of_eq {b b0 : Bus} {a a' : U32} {h : Exec Unit} (hf : Fetches2 b0 a a' h)
    (he : b.programRead a = b0.programRead a) (he' : b.programRead a' = b0.programRead a') :
    Fetches2 b a a' h := by
  obtain ⟨w, w2, accs, accs2, p, h1, h2, h3, h4, h5⟩ := hf
  exact ⟨w, w2, accs, accs2, p, he.trans h1, h2, h3, he'.trans h4, h5⟩

theorem latch1_quiet (i : Nat) (r : Regs) : latch1 (Vector.replicate 3 false) i r = r := by
  unfold latch1
  have : (Vector.replicate 3 false).toArray.getD i false = false := by
    rw [Array.getD_eq_getD_getElem?]
    cases h : (Vector.replicate 3 false).toArray[i]? with
    | none => rfl
    | some b =>
      have := Array.getElem?_eq_some_iff.mp h
      obtain ⟨hi, hb⟩ := this
      simp at hb
      simp [hb]
  rw [this, if_neg Bool.false_ne_true]

/-- No cross-thread latch pending: the latch phase does nothing. -/
theorem latchAll_quiet (c : Core) (hi : c.ipend = Vector.replicate 3 false) (hv : c.vpend = false) :
    latchAll c = c.regs := by
  unfold latchAll
  rw [hv, if_neg Bool.false_ne_true, hi, latch1_quiet, latch1_quiet, latch1_quiet]

theorem latched_quiet (c : Core) (hi : c.ipend = Vector.replicate 3 false) (hv : c.vpend = false) :
    latched c = c := by
  unfold latched
  rw [latchAll_quiet c hi hv]
  obtain ⟨r, b, l, e, ip, vp, vc, va, i⟩ := c
  simp only at hi hv
  subst hi hv
  rfl

/-- The interrupt block after a plain instruction does nothing when interrupts are disabled or a
`rep` is running. -/
theorem plain_then_ic {A : U32 → Prop} {h : Exec Unit} (ph : Plain A h) (x : Core)
    (hq : x.regs.ie = 0 ∨ x.regs.rep = true) :
    StateT.run (do h; interruptCheck : Exec Unit) x = h.run x := by
  rw [run_bind]
  cases hh : h.run x with
  | error e => rfl
  | ok r =>
    obtain ⟨⟨⟩, c'⟩ := r
    have k := ph.frame x c' hh
    rw [except_ok_bind, snd_mk]
    apply interruptCheck_noop
    unfold deliverable
    rcases hq with hq | hq
    · rw [k.ie, hq]; rfl
    · rw [k.rep, hq]; simp

/-- **One loop body on a plain one-word instruction.** -/
theorem cycle_plain1 {A : U32 → Prop} {h : Exec Unit} (ph : Plain A h) (c : Core)
    (hi : c.ipend = Vector.replicate 3 false) (hv : c.vpend = false)
    (hf : Fetches1 c.bus (fetchAddress c.regs) h) (r' : Regs)
    (hbook : loopBook (repBook (bumpPc c.regs)) = .ok r') (hq : r'.ie = 0 ∨ r'.rep = true) :
    ∃ accs, cycle.run c = h.run { c with regs := r', log := accs ++ c.log } := by
  obtain ⟨w, accs, p, hread, hdec, hexp, rfl⟩ := hf
  refine ⟨accs.reverse, ?_⟩
  have hl := latchAll_quiet c hi hv
  rw [cycle_one c w accs p (by rw [hl]; exact hread) hdec hexp, hl, hbook, latched_quiet c hi hv]
  exact plain_then_ic ph _ hq

/-- **One loop body on a plain two-word instruction.** -/
theorem cycle_plain2 {A : U32 → Prop} {h : Exec Unit} (ph : Plain A h) (c : Core)
    (hi : c.ipend = Vector.replicate 3 false) (hv : c.vpend = false)
    (hf : Fetches2 c.bus (fetchAddress c.regs) (fetchAddress (bumpPc c.regs)) h) (r' : Regs)
    (hbook : loopBook (repBook (bumpPc (bumpPc c.regs))) = .ok r') (hq : r'.ie = 0 ∨ r'.rep = true) :
    ∃ accs, cycle.run c = h.run { c with regs := r', log := accs ++ c.log } := by
  obtain ⟨w, w2, accs, accs2, p, hread, hdec, hexp, hread2, rfl⟩ := hf
  refine ⟨accs2.reverse ++ accs.reverse, ?_⟩
  have hl := latchAll_quiet c hi hv
  rw [cycle_two c w w2 accs accs2 p (by rw [hl]; exact hread) hdec hexp (by rw [hl]; exact hread2), hl, hbook,
    latched_quiet c hi hv, List.append_assoc]
  exact plain_then_ic ph _ hq

end Teakra
