import Proofs.C09.Step
/-!
# C09, part B (5) — `bkrep`: the block is executed exactly `lc + 1` times

Straight-line blocks of plain one- and two-word instructions (a two-word instruction may also be
the last one of the block: `end` is the address of its second word).
-/
namespace Teakra
open Exec ExecLemmas Interp Sys

/-- `pc += ℓ` -/
def adv (r : Regs) (ℓ : Nat) : Regs := { r with pc := r.pc + BitVec.ofNat 32 ℓ }

theorem bumpPc_eq_adv (r : Regs) : bumpPc r = adv r 1 := rfl
theorem bumpPc2_eq_adv (r : Regs) : bumpPc (bumpPc r) = adv r 2 := by
  have : r.pc + 1 + 1 = r.pc + BitVec.ofNat 32 2 := by bv_omega
  unfold adv; rw [← this]; rfl

/-- The program words at the (natural-number) address `a` of page `pg` are a plain instruction of
`ℓ` words (1 or 2) with handler `h`. -/
def FetchesL (b : Bus) (pg : U16) (a ℓ : Nat) (h : Exec Unit) : Prop :=
  (ℓ = 1 ∧ Fetches1 b (fAddr pg (BitVec.ofNat 32 a)) h) ∨
  (ℓ = 2 ∧ Fetches2 b (fAddr pg (BitVec.ofNat 32 a)) (fAddr pg (BitVec.ofNat 32 (a + 1))) h)

/-- The program words from address `a` up to `b` (exclusive) of page `pg` decode to the
straight-line instruction sequence with handlers `hs`. -/
inductive Code (bus : Bus) (pg : U16) : Nat → List (Exec Unit) → Nat → Prop
  | nil (a : Nat) : Code bus pg a [] a
  | cons {a ℓ b : Nat} {h : Exec Unit} {hs : List (Exec Unit)} :
      FetchesL bus pg a ℓ h → Code bus pg (a + ℓ) hs b → Code bus pg a (h :: hs) b

theorem FetchesL.len {b : Bus} {pg : U16} {a ℓ : Nat} {h : Exec Unit} (hf : FetchesL b pg a ℓ h) :
    1 ≤ ℓ ∧ ℓ ≤ 2 := by
  rcases hf with ⟨rfl, _⟩ | ⟨rfl, _⟩ <;> omega

theorem Code.le {bus : Bus} {pg : U16} {a b : Nat} {hs : List (Exec Unit)} (hc : Code bus pg a hs b) :
    a ≤ b ∧ (hs = [] → a = b) ∧ (hs ≠ [] → a < b) := by
  induction hc with
  | nil a => exact ⟨Nat.le_refl _, fun _ => rfl, fun h => absurd rfl h⟩
  | cons hf _ ih =>
    have := hf.len
    exact ⟨by omega, fun h => (List.cons_ne_nil _ _ h).elim, fun _ => by omega⟩

/-- **One loop body on a plain instruction of `ℓ` words at address `a`.** -/
theorem cycle_plainL {A : U32 → Prop} {h : Exec Unit} (ph : Plain A h) (c : Core) (pg : U16) (a ℓ : Nat)
    (hi : c.ipend = Vector.replicate 3 false) (hv : c.vpend = false)
    (hpc : c.regs.pc = BitVec.ofNat 32 a) (hpg : c.regs.prpage = pg)
    (hf : FetchesL c.bus pg a ℓ h) (r' : Regs)
    (hbook : loopBook (repBook (adv c.regs ℓ)) = .ok r') (hq : r'.ie = 0 ∨ r'.rep = true) :
    ∃ accs, cycle.run c = h.run { c with regs := r', log := accs ++ c.log } := by
  rcases hf with ⟨rfl, hf⟩ | ⟨rfl, hf⟩
  · exact cycle_plain1 ph c hi hv (by rw [fetchAddress_eq, hpc, hpg]; exact hf) r' hbook hq
  · refine cycle_plain2 ph c hi hv ?_ r' (by rw [bumpPc2_eq_adv]; exact hbook) hq
    have h1 : fetchAddress c.regs = fAddr pg (BitVec.ofNat 32 a) := by rw [fetchAddress_eq, hpc, hpg]
    have h2 : fetchAddress (bumpPc c.regs) = fAddr pg (BitVec.ofNat 32 (a + 1)) := by
      rw [fetchAddress_eq, bumpPc_pc, hpc, BitVec.ofNat_add]; exact congrArg (fAddr · _) hpg
    rw [h1, h2]; exact hf

theorem FetchesL.of_prog {A : U32 → Prop} {b b0 : Bus} {pg : U16} {a ℓ : Nat} {h : Exec Unit}
    (hf : FetchesL b0 pg a ℓ h) (hp : ∀ x, A x → b.programRead x = b0.programRead x)
    (hA : ∀ n, a ≤ n → n < a + ℓ → A (fAddr pg (BitVec.ofNat 32 n))) : FetchesL b pg a ℓ h := by
  rcases hf with ⟨rfl, hf⟩ | ⟨rfl, hf⟩
  · exact .inl ⟨rfl, hf.of_eq (hp _ (hA a (Nat.le_refl _) (by omega)))⟩
  · exact .inr ⟨rfl, hf.of_eq (hp _ (hA a (Nat.le_refl _) (by omega))) (hp _ (hA (a + 1) (by omega) (by omega)))⟩

/-- The frame of the block `s … e` with counter `n`. -/
def blkFrame (s e : Nat) (n : U16) : BkFrame := { start := BitVec.ofNat 32 s, end_ := BitVec.ofNat 32 e, lc := n }

/-- The machine is inside the block repeat `s … e` (frame index `i`, nesting depth `bcn = i + 1`)
at address `a`, with loop counter `n`; `bk` are the other frames, `b0` the bus the program was read
from. -/
structure BlkState (A : U32 → Prop) (b0 : Bus) (pg : U16) (i : Fin 4) (s e : Nat) (bk : Vector BkFrame 4)
    (bcn : U16) (a : Nat) (n : U16) (c : Core) : Prop where
  pc : c.regs.pc = BitVec.ofNat 32 a
  prpage : c.regs.prpage = pg
  rep : c.regs.rep = false
  lp : c.regs.lp ≠ 0
  bcn : c.regs.bcn = bcn
  bkrep : c.regs.bkrep = bk.set i.1 (blkFrame s e n) i.2
  ie : c.regs.ie = 0
  ipend : c.ipend = Vector.replicate 3 false
  vpend : c.vpend = false
  prog : ∀ x, A x → c.bus.programRead x = b0.programRead x

/-- The block repeat `s … e` has just been left. -/
structure BlkExit (A : U32 → Prop) (b0 : Bus) (pg : U16) (i : Fin 4) (s e : Nat) (bk : Vector BkFrame 4)
    (bcn : U16) (c : Core) : Prop where
  pc : c.regs.pc = BitVec.ofNat 32 (e + 1)
  prpage : c.regs.prpage = pg
  rep : c.regs.rep = false
  lp : c.regs.lp = Alu.b2u (bcn - 1 != 0)
  bcn : c.regs.bcn = bcn - 1
  bkrep : c.regs.bkrep = bk.set i.1 (blkFrame s e 0) i.2
  ie : c.regs.ie = 0
  ipend : c.ipend = Vector.replicate 3 false
  vpend : c.vpend = false
  prog : ∀ x, A x → c.bus.programRead x = b0.programRead x

theorem ofNat32_inj {x y : Nat} (hx : x < 2 ^ 32) (hy : y < 2 ^ 32)
    (h : BitVec.ofNat 32 x = BitVec.ofNat 32 y) : x = y := by
  have := congrArg BitVec.toNat h
  rw [BitVec.toNat_ofNat, BitVec.toNat_ofNat, Nat.mod_eq_of_lt hx, Nat.mod_eq_of_lt hy] at this
  exact this

section
variable {A : U32 → Prop} {b0 : Bus} {pg : U16} {i : Fin 4} {s e : Nat} {bk : Vector BkFrame 4} {bcn : U16}

/-- The bookkeeping after fetching `ℓ` words at address `a` of the block. -/
theorem blk_book (hbcn : bcn.toNat = i.1 + 1) (he : e + 1 < 2 ^ 32) {a : Nat} {n : U16} {c : Core}
    (hs : BlkState A b0 pg i s e bk bcn a n c) (ℓ : Nat) (hle : a + ℓ ≤ e + 1) :
    loopBook (repBook (adv c.regs ℓ)) =
      if a + ℓ = e + 1 then
        if n = 0 then .ok { (adv c.regs ℓ) with bcn := bcn - 1, lp := Alu.b2u (bcn - 1 != 0) }
        else .ok { (adv c.regs ℓ) with bkrep := bk.set i.1 (blkFrame s e (n - 1)) i.2, pc := BitVec.ofNat 32 s }
      else .ok (adv c.regs ℓ) := by
  rw [book_rep_off _ (show (adv c.regs ℓ).rep = false from hs.rep)]
  have hlp : (adv c.regs ℓ).lp ≠ 0 := hs.lp
  have hb : (adv c.regs ℓ).bcn.toNat = i.1 + 1 := by show c.regs.bcn.toNat = _; rw [hs.bcn]; exact hbcn
  have hfr : (adv c.regs ℓ).bkrep[i.1] = blkFrame s e n := by
    show c.regs.bkrep[i.1] = _
    simp only [hs.bkrep, Vector.getElem_set_self]
  have hpc : (adv c.regs ℓ).pc = BitVec.ofNat 32 (a + ℓ) := by
    show c.regs.pc + _ = _
    rw [hs.pc, BitVec.ofNat_add]
  have hbk : (adv c.regs ℓ).bkrep = bk.set i.1 (blkFrame s e n) i.2 := hs.bkrep
  have hb' : (adv c.regs ℓ).bcn = bcn := hs.bcn
  have hend : (blkFrame s e n).end_ + 1 = BitVec.ofNat 32 (e + 1) := by
    show BitVec.ofNat 32 e + 1 = _
    rw [BitVec.ofNat_add]; rfl
  by_cases hae : a + ℓ = e + 1
  · have hE : (adv c.regs ℓ).bkrep[i.1].end_ + 1 = (adv c.regs ℓ).pc := by rw [hfr, hend, hpc, hae]
    rw [if_pos hae]
    by_cases hn : n = 0
    · rw [if_pos hn, book_loop_exit _ i.1 hlp hb i.2 hE (by rw [hfr]; exact hn), hb']
    · rw [if_neg hn, book_loop_back _ i.1 hlp hb i.2 hE (by rw [hfr]; exact hn), hfr]
      show Except.ok ({ (adv c.regs ℓ) with
        bkrep := (adv c.regs ℓ).bkrep.set i.1 (blkFrame s e (n - 1)) i.2, pc := BitVec.ofNat 32 s } : Regs) = _
      rw [hbk, Vector.set_set]
  · rw [if_neg hae]
    apply book_loop_inside _ i.1 hlp hb i.2
    rw [hfr, hend, hpc]
    intro h
    exact hae (ofNat32_inj (by omega) he h.symm)

end
end Teakra
