import Proofs.C09.RegOnly
/-!
# C09 — accumulator arithmetic is `Plain`: `add Ab, Bx` and `sub Ab, Bx` (all operand values)
-/
namespace Teakra
open Exec ExecLemmas Interp Sys

abbrev keepAll (r r' : Regs) : Prop :=
  r'.pc = r.pc ∧ r'.prpage = r.prpage ∧ r'.rep = r.rep ∧ r'.repc = r.repc ∧ r'.lp = r.lp ∧
    r'.bcn = r.bcn ∧ r'.bkrep = r.bkrep ∧ r'.ie = r.ie

/-- A register update. -/
theorem RegOnly.modify (g : Regs → Regs) : RegOnly (modifyRegs g) (fun r => .ok ((), g r)) := fun _ => rfl

theorem LoopFree.modify (g : Regs → Regs) (hk : ∀ r, keepAll r (g r)) (hc : ∀ r, g r.noLoop = (g r).noLoop) :
    LoopFree (fun r => (.ok ((), g r) : Except Stop (Unit × Regs))) :=
  ⟨fun r a r' h => by cases h; exact hk r, fun r => by show Except.ok _ = Except.ok _; rw [hc]⟩

/-- A pure result with a register update. -/
theorem LoopFree.ok {α : Type} (v : Regs → α) (g : Regs → Regs) (hv : ∀ r, v r.noLoop = v r)
    (hk : ∀ r, keepAll r (g r)) (hc : ∀ r, g r.noLoop = (g r).noLoop) :
    LoopFree (fun r => (.ok (v r, g r) : Except Stop (α × Regs))) :=
  ⟨fun r a r' h => by cases h; exact hk r, fun r => by show Except.ok _ = Except.ok _; rw [hc, hv]⟩

theorem LoopFree.error {α : Type} (e : Stop) : LoopFree (fun _ => (.error e : Except Stop (α × Regs))) :=
  ⟨fun r a r' h => (by cases h), fun _ => rfl⟩

/-! ## the primitives of accumulator arithmetic -/

def getAccF (name : RegName) (r : Regs) : Except Stop (U64 × Regs) :=
  match accIndex name with
  | some (false, i) => .ok (r.a[i], r)
  | some (true, i) => .ok (r.b[i], r)
  | none => .error (.abort .assert)

theorem regOnly_getAcc (name : RegName) : RegOnly (getAcc name) (getAccF name) := by
  intro c
  unfold getAcc getAccF
  rw [run_bind, run_getRegs, except_ok_bind, fst_mk, snd_mk]
  cases accIndex name with
  | none => rfl
  | some x => obtain ⟨b, i⟩ := x; cases b <;> rfl

theorem loopFree_getAcc (name : RegName) : LoopFree (getAccF name) := by
  unfold getAccF
  cases accIndex name with
  | none => exact LoopFree.error _
  | some x =>
    obtain ⟨b, i⟩ := x
    cases b
    · exact LoopFree.ok (fun r => r.a[i]) id (fun _ => rfl) (fun _ => ⟨rfl, rfl, rfl, rfl, rfl, rfl, rfl, rfl⟩) (fun _ => rfl)
    · exact LoopFree.ok (fun r => r.b[i]) id (fun _ => rfl) (fun _ => ⟨rfl, rfl, rfl, rfl, rfl, rfl, rfl, rfl⟩) (fun _ => rfl)

def setAccF (name : RegName) (value : U64) (r : Regs) : Except Stop (Unit × Regs) :=
  match accIndex name with
  | some (false, i) => .ok ((), { r with a := r.a.set i value })
  | some (true, i) => .ok ((), { r with b := r.b.set i value })
  | none => .error (.abort .assert)

theorem regOnly_setAcc (name : RegName) (value : U64) : RegOnly (setAcc name value) (setAccF name value) := by
  intro c
  unfold setAcc setAccF
  cases accIndex name with
  | none => rfl
  | some x => obtain ⟨b, i⟩ := x; cases b <;> rfl

theorem loopFree_setAcc (name : RegName) (value : U64) : LoopFree (setAccF name value) := by
  unfold setAccF
  cases accIndex name with
  | none => exact LoopFree.error _
  | some x =>
    obtain ⟨b, i⟩ := x
    cases b
    · exact LoopFree.modify (fun r => { r with a := r.a.set i value })
        (fun _ => ⟨rfl, rfl, rfl, rfl, rfl, rfl, rfl, rfl⟩) (fun _ => rfl)
    · exact LoopFree.modify (fun r => { r with b := r.b.set i value })
        (fun _ => ⟨rfl, rfl, rfl, rfl, rfl, rfl, rfl, rfl⟩) (fun _ => rfl)

def addSubF (a b : U64) (sub : Bool) (r : Regs) : Except Stop (U64 × Regs) :=
  .ok ((Alu.addSub a b sub).result,
    { r with fc0 := (Alu.addSub a b sub).fc0, fv := (Alu.addSub a b sub).fv,
             fvl := if (Alu.addSub a b sub).fv != 0 then 1 else r.fvl })

theorem regOnly_addSub (a b : U64) (sub : Bool) : RegOnly (addSub a b sub) (addSubF a b sub) := fun _ => rfl

theorem loopFree_addSub (a b : U64) (sub : Bool) : LoopFree (addSubF a b sub) :=
  LoopFree.ok (fun _ => (Alu.addSub a b sub).result) _ (fun _ => rfl)
    (fun _ => ⟨rfl, rfl, rfl, rfl, rfl, rfl, rfl, rfl⟩) (fun _ => rfl)

/-- `SetAccFlag`, then the saturation under `sata == 0` (may set `flm`). -/
def satFlagF (value : U64) (r : Regs) : Except Stop (U64 × Regs) :=
  let f := Alu.accFlags value
  let r1 : Regs := { r with fz := f.fz, fm := f.fm, fe := f.fe, fn := f.fn }
  if r1.sata == 0 then
    .ok ((Alu.saturate value).1, if (Alu.saturate value).2 then { r1 with flm := 1 } else r1)
  else .ok (value, r1)

theorem regOnly_satFlag (value : U64) :
    RegOnly (do setAccFlag value; if (← getRegs).sata == 0 then saturateAcc value else pure value)
      (satFlagF value) := by
  intro c
  unfold satFlagF
  rw [run_bind]
  show (do let r ← getRegs; if r.sata == 0 then saturateAcc value else pure value : Exec U64).run _ = _
  rw [run_bind, run_getRegs, except_ok_bind, fst_mk, snd_mk]
  dsimp only
  by_cases hs : (c.regs.sata == 0) = true
  · rw [if_pos hs, if_pos hs]
    unfold saturateAcc
    cases h2 : (Alu.saturate value).2 <;> simp [h2] <;> rfl
  · rw [if_neg hs, if_neg hs]; rfl

theorem loopFree_satFlag (value : U64) : LoopFree (satFlagF value) := by
  constructor
  · intro r a r' h
    unfold satFlagF at h
    dsimp only at h
    split at h
    · cases h; split <;> exact ⟨rfl, rfl, rfl, rfl, rfl, rfl, rfl, rfl⟩
    · cases h; exact ⟨rfl, rfl, rfl, rfl, rfl, rfl, rfl, rfl⟩
  · intro r
    unfold satFlagF
    dsimp only
    show (if (r.sata == 0) = true then _ else _) = _
    by_cases hs : (r.sata == 0) = true
    · rw [if_pos hs, if_pos hs]
      cases (Alu.saturate value).2 <;> rfl
    · rw [if_neg hs, if_neg hs]; rfl

def satAndSetF (name : RegName) (value : U64) (r : Regs) : Except Stop (Unit × Regs) :=
  satFlagF value r >>= fun x => setAccF name x.1 x.2

theorem satAndSet_eq (name : RegName) (value : U64) :
    satAndSetAccAndFlag name value =
      (do setAccFlag value; if (← getRegs).sata == 0 then saturateAcc value else pure value) >>=
        fun v => setAcc name v := by
  unfold satAndSetAccAndFlag
  simp only [bind_assoc]
  congr 1; funext _; congr 1; funext r
  by_cases h : (r.sata == 0) = true
  · rw [if_pos h, if_pos h]
  · rw [if_neg h, if_neg h]

theorem regOnly_satAndSet (name : RegName) (value : U64) :
    RegOnly (satAndSetAccAndFlag name value) (satAndSetF name value) := by
  rw [satAndSet_eq]
  exact (regOnly_satFlag value).bind fun v => regOnly_setAcc name v

theorem loopFree_satAndSet (name : RegName) (value : U64) : LoopFree (satAndSetF name value) :=
  (loopFree_satFlag value).bind fun v => loopFree_setAcc name v

/-- `add Ab, Bx` / `sub Ab, Bx` on the register file. -/
def addAbBxF (a b : Nat) (sub : Bool) (r : Regs) : Except Stop (Unit × Regs) :=
  getAccF (Ab.name a) r >>= fun x =>
    (getAccF (Bx.name b) x.2 >>= fun y =>
      (addSubF y.1 x.1 sub y.2 >>= fun z => satAndSetF (Bx.name b) z.1 z.2))

theorem regOnly_add_Ab_Bx (a b : Nat) : RegOnly (Exec.add_Ab_Bx a b) (addAbBxF a b false) :=
  (regOnly_getAcc _).bind fun vA => (regOnly_getAcc _).bind fun vB =>
    (regOnly_addSub vB vA false).bind fun res => regOnly_satAndSet _ res

theorem regOnly_sub_Ab_Bx (a b : Nat) : RegOnly (Exec.sub_Ab_Bx a b) (addAbBxF a b true) :=
  (regOnly_getAcc _).bind fun vA => (regOnly_getAcc _).bind fun vB =>
    (regOnly_addSub vB vA true).bind fun res => regOnly_satAndSet _ res

theorem loopFree_addAbBx (a b : Nat) (sub : Bool) : LoopFree (addAbBxF a b sub) :=
  (loopFree_getAcc _).bind fun vA => (loopFree_getAcc _).bind fun vB =>
    (loopFree_addSub vB vA sub).bind fun res => loopFree_satAndSet _ res

/-- `add Ab, Bx` (accumulator addition with carry / overflow / saturation flags) is plain, for
every operand encoding. -/
theorem plain_add_Ab_Bx (A : U32 → Prop) (a b : Nat) : Plain A (Exec.add_Ab_Bx a b) :=
  Plain.of_regOnly A (regOnly_add_Ab_Bx a b) (loopFree_addAbBx a b false)

/-- `sub Ab, Bx` is plain. -/
theorem plain_sub_Ab_Bx (A : U32 → Prop) (a b : Nat) : Plain A (Exec.sub_Ab_Bx a b) :=
  Plain.of_regOnly A (regOnly_sub_Ab_Bx a b) (loopFree_addAbBx a b true)

end Teakra
