import Proofs.C09.Step
/-!
# C09, part B (3) — `rep`: the repeated instruction is executed exactly `repc + 1` times
-/
namespace Teakra
open Exec ExecLemmas Interp Sys

/-- The state of a running single-instruction repeat at the repeated instruction `pc0` with `n`
repetitions to go after the next one; `b0` is the bus the program was read from. -/
structure RepState (A : U32 → Prop) (b0 : Bus) (pg : U16) (pc0 : U32) (n : U16) (c : Core) : Prop where
  pc : c.regs.pc = pc0
  prpage : c.regs.prpage = pg
  rep : c.regs.rep = true
  repc : c.regs.repc = n
  lp : c.regs.lp = 0
  ie : c.regs.ie = 0
  ipend : c.ipend = Vector.replicate 3 false
  vpend : c.vpend = false
  prog : ∀ a, A a → c.bus.programRead a = b0.programRead a

/-- What is left when the repeat is over. -/
structure RepDone (pc0 : U32) (c c' : Core) : Prop where
  rep : c'.regs.rep = false
  repc : c'.regs.repc = 0
  pc : c'.regs.pc = pc0 + 1
  lp : c'.regs.lp = 0
  bcn : c'.regs.bcn = c.regs.bcn
  bkrep : c'.regs.bkrep = c.regs.bkrep
  ie : c'.regs.ie = 0
  ipend : c'.ipend = Vector.replicate 3 false
  vpend : c'.vpend = false

section
variable {A : U32 → Prop} {h : Exec Unit} {b0 : Bus} {pg : U16} {pc0 : U32}

/-- A repetition that is not the last: the loop body is the handler, run with `repc` decremented
and `pc` back on the instruction. -/
theorem rep_step_more (ph : Plain A h) (hA : A (fAddr pg pc0)) (hf : Fetches1 b0 (fAddr pg pc0) h)
    (n : U16) (hn : n ≠ 0) (c : Core) (hs : RepState A b0 pg pc0 n c) :
    ∃ accs, cycle.run c = h.run { c with regs := { c.regs with repc := n - 1 }, log := accs ++ c.log } := by
  have hfa : fetchAddress c.regs = fAddr pg pc0 := by rw [fetchAddress_eq, hs.pc, hs.prpage]
  have hb : loopBook (repBook (bumpPc c.regs)) = .ok { c.regs with repc := n - 1 } := by
    rw [book_rep_more c.regs hs.rep (by rw [hs.repc]; exact hn), hs.repc]
    exact book_loop_off _ hs.lp
  exact cycle_plain1 ph c hs.ipend hs.vpend (by rw [hfa]; exact hf.of_eq (hs.prog _ hA)) _ hb (.inr hs.rep)

/-- The last repetition: the loop body is the handler, run with `rep` cleared and `pc` past the
instruction. -/
theorem rep_step_last (ph : Plain A h) (hA : A (fAddr pg pc0)) (hf : Fetches1 b0 (fAddr pg pc0) h)
    (c : Core) (hs : RepState A b0 pg pc0 0 c) :
    ∃ accs, cycle.run c =
      h.run { c with regs := { c.regs with pc := c.regs.pc + 1, rep := false }, log := accs ++ c.log } := by
  have hfa : fetchAddress c.regs = fAddr pg pc0 := by rw [fetchAddress_eq, hs.pc, hs.prpage]
  have hb : loopBook (repBook (bumpPc c.regs)) = .ok { c.regs with pc := c.regs.pc + 1, rep := false } := by
    rw [book_rep_last c.regs hs.rep hs.repc]
    exact book_loop_off _ hs.lp
  exact cycle_plain1 ph c hs.ipend hs.vpend (by rw [hfa]; exact hf.of_eq (hs.prog _ hA)) _ hb (.inl hs.ie)

/-- **`rep`, counting.**  From a state with `rep` set and `repc = N` on a plain one-word
instruction, `N + 1` loop bodies are `N + 1` executions of its handler (as seen through
`loopView`: everything except the loop registers and the access log), and they end with `rep`
cleared, `repc = 0` and `pc` behind the instruction. -/
theorem rep_unrolled_nat (ph : Plain A h) (hA : A (fAddr pg pc0)) (hf : Fetches1 b0 (fAddr pg pc0) h)
    (N : Nat) (hN : N < 65536) (c : Core) (hs : RepState A b0 pg pc0 (BitVec.ofNat 16 N) c) :
    seen ((cycles (N + 1)).run c) = seen ((iter h (N + 1)).run c) ∧
    ∀ c', (cycles (N + 1)).run c = .ok ((), c') → RepDone pc0 c c' := by
  induction N generalizing c with
  | zero =>
    obtain ⟨accs, hc⟩ := rep_step_last ph hA hf c hs
    have hcy : (cycles 1).run c = cycle.run c := by
      rw [cycles_succ]; cases cycle.run c <;> rfl
    have hit : (iter h 1).run c = h.run c := by
      rw [iter_succ]; cases h.run c <;> rfl
    rw [hcy, hit, hc]
    refine ⟨ph.blind _ _ rfl, ?_⟩
    intro c' hr
    have k := ph.frame _ _ hr
    exact ⟨k.rep, k.repc.trans hs.repc, k.pc.trans (by rw [hs.pc]), k.lp.trans hs.lp, k.bcn, k.bkrep,
      k.ie.trans hs.ie, k.ipend.trans hs.ipend, k.vpend.trans hs.vpend⟩
  | succ N ih =>
    have hne : BitVec.ofNat 16 (N + 1) ≠ 0 := by
      intro h0
      have := congrArg BitVec.toNat h0
      simp at this; omega
    have hdec : BitVec.ofNat 16 (N + 1) - 1 = BitVec.ofNat 16 N := by
      apply BitVec.eq_of_toNat_eq; simp; omega
    obtain ⟨accs, hc⟩ := rep_step_more ph hA hf _ hne c hs
    rw [cycles_succ, iter_succ, hc, hdec]
    have hv : loopView ({ c with regs := { c.regs with repc := BitVec.ofNat 16 N }, log := accs ++ c.log } : Core) =
        loopView c := rfl
    have hstate : ∀ r, h.run ({ c with regs := { c.regs with repc := BitVec.ofNat 16 N }, log := accs ++ c.log } : Core)
        = .ok r → RepState A b0 pg pc0 (BitVec.ofNat 16 N) r.2 ∧ r.2.regs.bcn = c.regs.bcn ∧
          r.2.regs.bkrep = c.regs.bkrep := by
      intro r hr
      obtain ⟨⟨⟩, c₁⟩ := r
      have k := ph.frame _ _ hr
      exact ⟨⟨k.pc.trans hs.pc, k.prpage.trans hs.prpage, k.rep.trans hs.rep, k.repc, k.lp.trans hs.lp,
        k.ie.trans hs.ie, k.ipend.trans hs.ipend, k.vpend.trans hs.vpend,
        fun a ha => (k.prog a ha).trans (hs.prog a ha)⟩, k.bcn, k.bkrep⟩
    constructor
    · refine seen_bind' (ph.blind _ _ hv) ?_
      intro r r' hr _ h12
      rw [(ih (Nat.lt_of_succ_lt hN) r.2 (hstate r hr).1).1]
      exact (ph.iter (N + 1)).blind _ _ h12
    · intro c' hr
      cases hh : h.run ({ c with regs := { c.regs with repc := BitVec.ofNat 16 N }, log := accs ++ c.log } : Core) with
      | error e => rw [hh] at hr; cases hr
      | ok r =>
        rw [hh, except_ok_bind] at hr
        obtain ⟨hst, hb1, hb2⟩ := hstate r hh
        have d := (ih (Nat.lt_of_succ_lt hN) r.2 hst).2 c' hr
        exact ⟨d.rep, d.repc, d.pc, d.lp, d.bcn.trans hb1, d.bkrep.trans hb2, d.ie, d.ipend, d.vpend⟩

end

/-- **`rep` executes the repeated instruction exactly `repc + 1` times.**  Interrupts disabled, no
latch pending, no block repeat active; the word at `pc` is a plain one-word instruction with
handler `h`; `rep` is set and `repc = N` (any `N`, 0 … 65535).  Then `N + 1` loop bodies

* give the same outcome as executing `h` `N + 1` times — equality of everything but the loop
  registers and the access log, including the case that some execution aborts, and
* end with `rep = false`, `repc = 0`, `pc` behind the instruction, `lp, bcn, bkrep, ie` and the
  latches as before (`RepDone`);

by `loopView_determines` the two together fix the final state up to the access log. -/
theorem rep_unrolled {A : U32 → Prop} {h : Exec Unit} (ph : Plain A h) (c : Core)
    (hrep : c.regs.rep = true) (hlp : c.regs.lp = 0) (hie : c.regs.ie = 0)
    (hip : c.ipend = Vector.replicate 3 false) (hvp : c.vpend = false)
    (hA : A (fetchAddress c.regs)) (hf : Fetches1 c.bus (fetchAddress c.regs) h) :
    seen ((cycles (c.regs.repc.toNat + 1)).run c) = seen ((iter h (c.regs.repc.toNat + 1)).run c) ∧
    ∀ c', (cycles (c.regs.repc.toNat + 1)).run c = .ok ((), c') → RepDone c.regs.pc c c' := by
  apply rep_unrolled_nat (b0 := c.bus) (pg := c.regs.prpage) ph hA hf _ c.regs.repc.isLt
  exact ⟨rfl, rfl, hrep, by simp, hlp, hie, hip, hvp, fun _ _ => rfl⟩

/-- `Repeat`: the `rep` instruction itself sets the flag and the counter, nothing else. -/
theorem rep_sets (N : U16) (c : Core) :
    (Exec.repeat_ N).run c = .ok ((), { c with regs := { c.regs with repc := N, rep := true } }) := rfl

theorem rep_Imm8_eq (a : Nat) : Exec.rep_Imm8 a = Exec.repeat_ (imm16 a) := rfl

theorem rep_r6_run (c : Core) : Exec.rep_r6.run c = (Exec.repeat_ c.regs.r[6]).run c := rfl

/-- **`rep #N` followed by instruction I executes I exactly `N + 1` times**, for every `N` in
0 … 65535.  `hr` is the handler of the `rep` instruction at `pc` (count `N`, from an immediate or
a register: `hrun`), `h` the plain one-word instruction behind it.  `1 + (N + 1)` loop bodies give
the outcome of `N + 1` executions of `h` and leave `pc` behind I with `rep` cleared. -/
theorem rep_program {A : U32 → Prop} {h hr : Exec Unit} (ph : Plain A h) (c : Core) (N : U16)
    (hrep : c.regs.rep = false) (hlp : c.regs.lp = 0) (hie : c.regs.ie = 0)
    (hip : c.ipend = Vector.replicate 3 false) (hvp : c.vpend = false)
    (hfr : Fetches1 c.bus (fetchAddress c.regs) hr)
    (hrun : ∀ x : Core, x.regs = bumpPc c.regs → hr.run x = (Exec.repeat_ N).run x)
    (hA : A (fAddr c.regs.prpage (c.regs.pc + 1)))
    (hf : Fetches1 c.bus (fAddr c.regs.prpage (c.regs.pc + 1)) h) :
    seen ((cycles (1 + (N.toNat + 1))).run c) = seen ((iter h (N.toNat + 1)).run c) ∧
    ∀ c', (cycles (1 + (N.toNat + 1))).run c = .ok ((), c') → RepDone (c.regs.pc + 1) c c' := by
  obtain ⟨w, accs, p, hread, hdec, hexp, rfl⟩ := hfr
  have hl := latchAll_quiet c hip hvp
  have hb : loopBook (repBook (bumpPc c.regs)) = .ok (bumpPc c.regs) := by
    rw [book_rep_off _ (by rw [bumpPc_rep]; exact hrep)]
    exact book_loop_off _ (by rw [bumpPc_lp]; exact hlp)
  have h1 : cycle.run c = .ok ((), { c with regs := { (bumpPc c.regs) with repc := N, rep := true }, log := accs.reverse ++ c.log }) := by
    rw [cycle_one c w accs p (by rw [hl]; exact hread) hdec hexp, hl, hb, latched_quiet c hip hvp]
    show StateT.run (dispatch p.idx (p.extract w.toNat 0) >>= fun _ => interruptCheck) _ = _
    rw [run_bind, hrun _ rfl, rep_sets, except_ok_bind, snd_mk]
    apply interruptCheck_noop
    unfold deliverable
    simp
  rw [cycles_add, cycles_one, h1, except_ok_bind, snd_mk]
  have key := rep_unrolled ph ({ c with regs := { (bumpPc c.regs) with repc := N, rep := true }, log := accs.reverse ++ c.log } : Core) rfl (by exact hlp) (by exact hie) hip hvp hA hf
  obtain ⟨k1, k2⟩ := key
  constructor
  · exact k1.trans ((ph.iter _).blind _ _ rfl)
  · intro c' hc'
    have d := k2 c' hc'
    exact ⟨d.rep, d.repc, d.pc, d.lp, d.bcn, d.bkrep, d.ie, d.ipend, d.vpend⟩

end Teakra
