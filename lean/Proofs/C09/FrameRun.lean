import Proofs.C09.Frame
/-!
# C09, part C (2) — closed forms of `StoreBlockRepeat` and `RestoreBlockRepeat`
-/
namespace Teakra
open Exec ExecLemmas Interp Sys

/-- An address register (`regs.r[unit]` or `regs.sp`) that behaves like a variable of its own:
reading gives what was written, and it is independent of the loop registers. -/
structure Exec.RegRef.Lawful (ar : Exec.RegRef) : Prop where
  get_set : ∀ r v, ar.get (ar.set r v) = v
  set_set : ∀ r v w, ar.set (ar.set r v) w = ar.set r w
  bkrep_set : ∀ r v, (ar.set r v).bkrep = r.bkrep
  lp_set : ∀ r v, (ar.set r v).lp = r.lp
  bcn_set : ∀ r v, (ar.set r v).bcn = r.bcn
  set_bkrep : ∀ r v bk, ar.set { r with bkrep := bk } v = { ar.set r v with bkrep := bk }
  set_bcn : ∀ r v x, ar.set { r with bcn := x } v = { ar.set r v with bcn := x }
  set_lp : ∀ r v x, ar.set { r with lp := x } v = { ar.set r v with lp := x }
  get_bkrep : ∀ r bk, ar.get { r with bkrep := bk } = ar.get r
  get_bcn : ∀ r x, ar.get { r with bcn := x } = ar.get r
  get_lp : ∀ r x, ar.get { r with lp := x } = ar.get r

theorem Exec.RegRef.lawful_sp : Exec.RegRef.Lawful Exec.RegRef.sp :=
  ⟨fun _ _ => rfl, fun _ _ _ => rfl, fun _ _ => rfl, fun _ _ => rfl, fun _ _ => rfl,
   fun _ _ _ => rfl, fun _ _ _ => rfl, fun _ _ _ => rfl, fun _ _ => rfl, fun _ _ => rfl, fun _ _ => rfl⟩

theorem Exec.RegRef.lawful_rn (unit : Nat) (hu : unit < 8) : Exec.RegRef.Lawful (Exec.RegRef.rn unit) := by
  refine ⟨?_, ?_, fun _ _ => rfl, fun _ _ => rfl, fun _ _ => rfl, fun _ _ _ => rfl, fun _ _ _ => rfl,
    fun _ _ _ => rfl, fun _ _ => rfl, fun _ _ => rfl, fun _ _ => rfl⟩
  · intro r v
    simp [Exec.RegRef.rn, vset, hu]
  · intro r v w
    simp [Exec.RegRef.rn, vset, hu]

/-! ## public copies of the private helpers and of the two handlers (equal by `rfl`) -/

/-- `mem.DataRead(address_reg++)` -/
def readPostInc' (ar : Exec.RegRef) : Exec U16 := do
  let address := ar.get (← getRegs)
  modifyRegs fun r => ar.set r (address + 1)
  dataRead address

/-- `mem.DataWrite(--address_reg, v)` -/
def writePreDec' (ar : Exec.RegRef) (v : U16) : Exec Unit := do
  modifyRegs fun r => ar.set r (ar.get r - 1)
  dataWrite (ar.get (← getRegs)) v

def restoreBlockRepeat' (ar : Exec.RegRef) : Exec Unit := do
  if (← getRegs).lp != 0 then
    assert ((← getRegs).bcn.toNat ≤ 3)
    modifyRegs fun r =>
      let n := r.bcn.toNat
      { r with bkrep := Vector.ofFn fun (k : Fin 4) =>
                 if 1 ≤ k.val ∧ k.val ≤ n then r.bkrep.toArray.getD (k.val - 1) {} else r.bkrep[k],
               bcn := r.bcn + 1 }
  let flag : U32 := (← readPostInc' ar).setWidth 32
  let valid : U16 := (flag >>> 15).setWidth 16
  if (← getRegs).lp != 0 then
    assert (valid != 0)
  else
    if valid != 0 then modifyRegs fun r => { r with bcn := 1, lp := 1 }
  let e ← readPostInc' ar
  modifyRegs fun r => setFrame' r 0 fun f => { f with end_ := e.setWidth 32 ||| (((flag >>> 8) &&& 3) <<< 16) }
  let s ← readPostInc' ar
  modifyRegs fun r => setFrame' r 0 fun f => { f with start := s.setWidth 32 ||| ((flag &&& 3) <<< 16) }
  let lc ← readPostInc' ar
  modifyRegs fun r => setFrame' r 0 fun f => { f with lc := lc }

def storeBlockRepeat' (ar : Exec.RegRef) : Exec Unit := do
  writePreDec' ar (← getRegs).bkrep[0].lc
  writePreDec' ar (((← getRegs).bkrep[0].start &&& 0xFFFF).setWidth 16)
  writePreDec' ar (((← getRegs).bkrep[0].end_ &&& 0xFFFF).setWidth 16)
  let r ← getRegs
  let flag : U16 := r.lp <<< 15
  let flag : U16 := (flag.setWidth 32 ||| (r.bkrep[0].start >>> 16)).setWidth 16
  let flag : U16 := (flag.setWidth 32 ||| ((r.bkrep[0].end_ >>> 16) <<< 8)).setWidth 16
  writePreDec' ar flag
  if (← getRegs).lp != 0 then
    let n := (← getRegs).bcn.toNat
    if n == 0 || n > 4 then abort .oob
    modifyRegs fun r =>
      { r with bkrep := Vector.ofFn fun (k : Fin 4) =>
                 if k.val + 1 < n then r.bkrep.toArray.getD (k.val + 1) {} else r.bkrep[k],
               bcn := r.bcn - 1 }
    if (← getRegs).bcn == 0 then modifyRegs fun r => { r with lp := 0 }

theorem restoreBlockRepeat_eq (ar : Exec.RegRef) : Exec.restoreBlockRepeat ar = restoreBlockRepeat' ar := rfl
theorem storeBlockRepeat_eq (ar : Exec.RegRef) : Exec.storeBlockRepeat ar = storeBlockRepeat' ar := rfl

/-! ## the two access primitives -/

theorem writePreDec'_at {ar : Exec.RegRef} (hl : ar.Lawful) (c : Core) (R : Regs) (v : U16) :
    (writePreDec' ar v).run { c with regs := R } =
      (busWrite c (ar.get R - 1) v).map fun c' => ((), { c' with regs := ar.set R (ar.get R - 1) }) := by
  unfold writePreDec'
  rw [run_bind, run_modifyRegs, except_ok_bind, snd_mk, run_bind, run_getRegs, except_ok_bind, fst_mk, snd_mk]
  show (dataWrite (ar.get (ar.set R (ar.get R - 1))) v).run { c with regs := ar.set R (ar.get R - 1) } = _
  rw [hl.get_set, dataWrite_run9, busWrite_regs]
  cases busWrite c (ar.get R - 1) v <;> rfl

theorem readPostInc'_at {ar : Exec.RegRef} (c : Core) (R : Regs) :
    (readPostInc' ar).run { c with regs := R } =
      (busRead c (ar.get R)).map fun x => (x.1, { x.2 with regs := ar.set R (ar.get R + 1) }) := by
  unfold readPostInc'
  rw [run_bind, run_getRegs, except_ok_bind, fst_mk, snd_mk, run_bind, run_modifyRegs, except_ok_bind, snd_mk]
  show (dataRead (ar.get R)).run { c with regs := ar.set R (ar.get R + 1) } = _
  rw [dataRead_run9, busRead_regs]

/-! ## `StoreBlockRepeat` -/

/-- The low 16 bits of a program address. -/
def low16 (x : U32) : U16 := (x &&& 0xFFFF).setWidth 16

/-- The flag word `StoreBlockRepeat` writes: `lp << 15 | start >> 16 | (end >> 16) << 8`, each
`|=` truncated to `u16`. -/
def packFlag (lp : U16) (f : BkFrame) : U16 :=
  let flag : U16 := lp <<< 15
  let flag : U16 := (flag.setWidth 32 ||| (f.start >>> 16)).setWidth 16
  (flag.setWidth 32 ||| ((f.end_ >>> 16) <<< 8)).setWidth 16

/-- What `StoreBlockRepeat` does to the loop registers after the four writes: with `lp` set, the
frames above the innermost move down one slot and `bcn` is decremented (`lp` is cleared when that
makes it 0); `oob` when `bcn` is outside 1 … 4 (`std::copy` over an invalid range). -/
def storePop (r : Regs) : Except Stop Regs :=
  if r.lp != 0 then
    if r.bcn.toNat == 0 || r.bcn.toNat > 4 then .error (.abort .oob)
    else
      let r1 : Regs :=
        { r with bkrep := Vector.ofFn fun (k : Fin 4) =>
                   if k.val + 1 < r.bcn.toNat then r.bkrep.toArray.getD (k.val + 1) {} else r.bkrep[k],
                 bcn := r.bcn - 1 }
      .ok (if r1.bcn == 0 then { r1 with lp := 0 } else r1)
  else .ok r

theorem storeTail_run (c : Core) :
    StateT.run (do
      if (← getRegs).lp != 0 then
        let n := (← getRegs).bcn.toNat
        if n == 0 || n > 4 then abort .oob
        modifyRegs fun r =>
          { r with bkrep := Vector.ofFn fun (k : Fin 4) =>
                     if k.val + 1 < n then r.bkrep.toArray.getD (k.val + 1) {} else r.bkrep[k],
                   bcn := r.bcn - 1 }
        if (← getRegs).bcn == 0 then modifyRegs fun r => { r with lp := 0 } : Exec Unit) c =
    (storePop c.regs).map fun r => ((), { c with regs := r }) := by
  rw [run_bind, run_getRegs, except_ok_bind, fst_mk, snd_mk]
  unfold storePop
  by_cases hlp : (c.regs.lp != 0) = true
  · rw [if_pos hlp, if_pos hlp, run_bind, run_getRegs, except_ok_bind, fst_mk, snd_mk]
    dsimp only
    by_cases hg : (c.regs.bcn.toNat == 0 || decide (c.regs.bcn.toNat > 4)) = true
    · rw [if_pos hg, if_pos hg]; rfl
    · rw [if_neg hg, if_neg hg]
      rw [run_bind, run_modifyRegs, except_ok_bind, snd_mk, run_bind, run_getRegs, except_ok_bind, fst_mk, snd_mk]
      dsimp only
      by_cases hz : (c.regs.bcn - 1 == 0) = true
      · rw [if_pos hz, if_pos hz]; rfl
      · rw [if_neg hz, if_neg hz]; rfl
  · rw [if_neg hlp, if_neg hlp]; rfl

theorem map_ok {ε α β : Type} (f : α → β) (a : α) : Except.map f (Except.ok a : Except ε α) = Except.ok (f a) := rfl

theorem writePreDec'_run {ar : Exec.RegRef} (hl : ar.Lawful) (c : Core) (v : U16) :
    (writePreDec' ar v).run c =
      (busWrite c (ar.get c.regs - 1) v).map fun c' => ((), { c' with regs := ar.set c.regs (ar.get c.regs - 1) }) :=
  writePreDec'_at hl c c.regs v

/-- **`StoreBlockRepeat`, closed form.**  With `a` the address register and `f` the innermost
frame (`bkrep_stack[0]`): the words `f.lc`, `f.start & 0xFFFF`, `f.end & 0xFFFF` and the flag word
`packFlag lp f` are written to `a-1, a-2, a-3, a-4` in this order, the address register ends at
`a - 4`, and the loop registers are popped by `storePop`. -/
theorem storeBlockRepeat_run {ar : Exec.RegRef} (hl : ar.Lawful) (c : Core) :
    (Exec.storeBlockRepeat ar).run c =
      busWrite c (ar.get c.regs - 1) c.regs.bkrep[0].lc >>= fun c1 =>
      busWrite c1 (ar.get c.regs - 1 - 1) (low16 c.regs.bkrep[0].start) >>= fun c2 =>
      busWrite c2 (ar.get c.regs - 1 - 1 - 1) (low16 c.regs.bkrep[0].end_) >>= fun c3 =>
      busWrite c3 (ar.get c.regs - 1 - 1 - 1 - 1) (packFlag c.regs.lp c.regs.bkrep[0]) >>= fun c4 =>
      (storePop (ar.set c.regs (ar.get c.regs - 1 - 1 - 1 - 1))).map fun r => ((), { c4 with regs := r }) := by
  rw [storeBlockRepeat_eq]
  unfold storeBlockRepeat' low16
  rw [run_bind, run_getRegs, except_ok_bind, fst_mk, snd_mk, run_bind, writePreDec'_run hl]
  cases busWrite c (ar.get c.regs - 1) c.regs.bkrep[0].lc with
  | error e => rfl
  | ok c1 =>
    rw [map_ok, except_ok_bind, except_ok_bind, snd_mk, run_bind, run_getRegs, except_ok_bind, fst_mk, snd_mk, run_bind,
      writePreDec'_at hl]
    simp -zeta only [hl.get_set, hl.set_set, hl.bkrep_set]
    cases busWrite c1 (ar.get c.regs - 1 - 1) (BitVec.setWidth 16 (c.regs.bkrep[0].start &&& 65535)) with
    | error e => rfl
    | ok c2 =>
      rw [map_ok, except_ok_bind, except_ok_bind, snd_mk, run_bind, run_getRegs, except_ok_bind, fst_mk, snd_mk, run_bind,
        writePreDec'_at hl]
      simp -zeta only [hl.get_set, hl.set_set, hl.bkrep_set]
      cases busWrite c2 (ar.get c.regs - 1 - 1 - 1) (BitVec.setWidth 16 (c.regs.bkrep[0].end_ &&& 65535)) with
      | error e => rfl
      | ok c3 =>
        rw [map_ok, except_ok_bind, except_ok_bind, snd_mk, run_bind, run_getRegs, except_ok_bind, fst_mk, snd_mk,
          run_have, run_have, run_have, run_bind, writePreDec'_at hl]
        simp -zeta only [hl.get_set, hl.set_set, hl.bkrep_set, hl.lp_set]
        show _ = busWrite c3 (ar.get c.regs - 1 - 1 - 1 - 1)
          (BitVec.setWidth 16 (BitVec.setWidth 32
            (BitVec.setWidth 16 (BitVec.setWidth 32 (c.regs.lp <<< 15) ||| c.regs.bkrep[0].start >>> 16)) |||
              c.regs.bkrep[0].end_ >>> 16 <<< 8)) >>= _
        cases busWrite c3 (ar.get c.regs - 1 - 1 - 1 - 1)
          (BitVec.setWidth 16 (BitVec.setWidth 32
            (BitVec.setWidth 16 (BitVec.setWidth 32 (c.regs.lp <<< 15) ||| c.regs.bkrep[0].start >>> 16)) |||
              c.regs.bkrep[0].end_ >>> 16 <<< 8)) with
        | error e => rfl
        | ok c4 =>
          rw [map_ok, except_ok_bind, except_ok_bind, snd_mk]
          refine (storeTail_run _).trans ?_
          cases storePop (ar.set c.regs (ar.get c.regs - 1 - 1 - 1 - 1)) <;> rfl

end Teakra
