import Proofs.C06Sys.Cycle
/-!
# C09, part A — the loop body `cycle` split at its join points

`cycle` = latch → fetch → single-instruction-repeat bookkeeping → block-repeat bookkeeping →
`dispatch` → `interruptCheck`.  The two bookkeeping steps are pure functions of the register file
(`repBook`, `loopBook`); `fetchBook` is everything between the latch and `dispatch`.
-/
namespace Teakra
open Exec ExecLemmas Interp Sys

/-- `pc | (prpage << 18)` -/
def fAddr (pg : U16) (pc : U32) : U32 := pc ||| ((pg.setWidth 32 : U32) <<< 18)

theorem fetchAddress_eq (r : Regs) : fetchAddress r = fAddr r.prpage r.pc := rfl

/-- The single-instruction-repeat block of `Run`, on the register file (after the fetch). -/
def repBook (r : Regs) : Regs :=
  if r.rep then
    if r.repc == 0 then { r with rep := false } else { r with repc := r.repc - 1, pc := r.pc - 1 }
  else r

/-- The block-repeat block of `Run`, on the register file (after the fetch and `repBook`).
`oob`: the C++ indexes `bkrep_stack[bcn - 1]` outside its four entries. -/
def loopBook (r : Regs) : Except Stop Regs :=
  if r.lp != 0 then
    let i := r.bcn.toNat - 1
    if r.bcn == 0 || i ≥ 4 then .error (.abort .oob)
    else
      let f := r.bkrep.toArray.getD i {}
      if f.end_ + 1 == r.pc then
        if f.lc == 0 then .ok { r with bcn := r.bcn - 1, lp := Alu.b2u (r.bcn - 1 != 0) }
        else .ok { r with bkrep := (if h : i < 4 then r.bkrep.set i { f with lc := f.lc - 1 } else r.bkrep),
                          pc := f.start }
      else .ok r
  else .ok r

/-- Fetch one instruction: opcode, decoder entry, expansion word (0 for one-word patterns). -/
def fetch : Exec (Option InstrPat × U16 × U16) := do
  let opcode ← programRead (← fetchAddr)
  let dec := decoderArray.getD opcode.toNat none
  let expanded := match dec with | some p => p.expanded | none => false
  let expansion ← if expanded then programRead (← fetchAddr) else pure 0
  return (dec, opcode, expansion)

/-- Both bookkeeping blocks. -/
def book : Exec Unit := do
  let r ← getRegs
  match loopBook (repBook r) with
  | .ok r' => setRegs r'
  | .error e => throw e

/-- Everything of the loop body between the latch and `dispatch`. -/
def fetchBook : Exec (Option InstrPat × U16 × U16) := do
  let x ← fetch
  book
  return x

/-- `decoder.call(*this, opcode, expand_value)` -/
def exec1 (x : Option InstrPat × U16 × U16) : Exec Unit :=
  match x.1 with
  | none => unreachable
  | some p => dispatch p.idx (p.extract x.2.1.toNat x.2.2.toNat)

theorem book_run (c : Core) :
    book.run c = match loopBook (repBook c.regs) with
      | .ok r' => .ok ((), { c with regs := r' })
      | .error e => .error e := by
  unfold book
  rw [run_bind, run_getRegs, except_ok_bind, fst_mk, snd_mk]
  cases loopBook (repBook c.regs) <;> rfl

/-- The single-instruction-repeat block followed by any continuation. -/
theorem repPart_run (rest : Exec Unit) (c : Core) :
    StateT.run (do
      let r ← getRegs
      if r.rep then
        if r.repc == 0 then modifyRegs fun r => { r with rep := false }
        else modifyRegs fun r => { r with repc := r.repc - 1, pc := r.pc - 1 }
      rest : Exec Unit) c = rest.run { c with regs := repBook c.regs } := by
  rw [run_bind, run_getRegs, except_ok_bind, fst_mk, snd_mk]
  by_cases hrep : c.regs.rep = true
  · by_cases hz : (c.regs.repc == 0) = true
    · rw [if_pos hrep, repBook, if_pos hrep, if_pos hz, run_have, if_pos hz]
      rfl
    · rw [if_pos hrep, repBook, if_pos hrep, if_neg hz, run_have, if_neg hz]
      rfl
  · rw [if_neg hrep, repBook, if_neg hrep]

/-- The block-repeat block followed by any continuation. -/
theorem loopPart_run (rest : Exec Unit) (c : Core) :
    StateT.run (do
      let r ← getRegs
      if r.lp != 0 then
        let i := r.bcn.toNat - 1
        if r.bcn == 0 || i ≥ 4 then abort .oob
        let f := r.bkrep.toArray.getD i {}
        if f.end_ + 1 == r.pc then
          if f.lc == 0 then
            modifyRegs fun r => { r with bcn := r.bcn - 1, lp := Alu.b2u (r.bcn - 1 != 0) }
          else
            modifyRegs fun r =>
              { r with bkrep := (if h : i < 4 then r.bkrep.set i { f with lc := f.lc - 1 } else r.bkrep),
                       pc := f.start }
      rest : Exec Unit) c =
    match loopBook c.regs with
    | .ok r' => rest.run { c with regs := r' }
    | .error e => .error e := by
  rw [run_bind, run_getRegs, except_ok_bind, fst_mk, snd_mk]
  by_cases hlp : (c.regs.lp != 0) = true
  · rw [if_pos hlp, loopBook, if_pos hlp]
    dsimp only
    by_cases hg : (c.regs.bcn == 0 || decide (c.regs.bcn.toNat - 1 ≥ 4)) = true
    · rw [if_pos hg, if_pos hg]
      rfl
    · rw [if_neg hg, if_neg hg]
      by_cases he : ((c.regs.bkrep.toArray.getD (c.regs.bcn.toNat - 1) {}).end_ + 1 == c.regs.pc) = true
      · rw [if_pos he, if_pos he]
        by_cases hl : ((c.regs.bkrep.toArray.getD (c.regs.bcn.toNat - 1) {}).lc == 0) = true
        · rw [if_pos hl, if_pos hl]
          rfl
        · rw [if_neg hl, if_neg hl]
          rfl
      · rw [if_neg he, if_neg he]
  · rw [if_neg hlp, loopBook, if_neg hlp]

/-- The two bookkeeping blocks, `dispatch` and the interrupt block, for a fetched instruction. -/
theorem tail_run (dec : Option InstrPat) (opcode expansion : U16) (c : Core) :
    StateT.run (do
      let r ← getRegs
      if r.rep then
        if r.repc == 0 then modifyRegs fun r => { r with rep := false }
        else modifyRegs fun r => { r with repc := r.repc - 1, pc := r.pc - 1 }
      let r ← getRegs
      if r.lp != 0 then
        let i := r.bcn.toNat - 1
        if r.bcn == 0 || i ≥ 4 then abort .oob
        let f := r.bkrep.toArray.getD i {}
        if f.end_ + 1 == r.pc then
          if f.lc == 0 then
            modifyRegs fun r => { r with bcn := r.bcn - 1, lp := Alu.b2u (r.bcn - 1 != 0) }
          else
            modifyRegs fun r =>
              { r with bkrep := (if h : i < 4 then r.bkrep.set i { f with lc := f.lc - 1 } else r.bkrep),
                       pc := f.start }
      match dec with
      | none => unreachable
      | some p => dispatch p.idx (p.extract opcode.toNat expansion.toNat)
      interruptCheck : Exec Unit) c =
    StateT.run (do book; exec1 (dec, opcode, expansion); interruptCheck : Exec Unit) c := by
  refine (repPart_run _ c).trans ?_
  refine (loopPart_run _ _).trans ?_
  rw [run_bind book, book_run]
  cases loopBook (repBook c.regs) with
  | error e => rw [except_error_bind]
  | ok r' =>
    rw [except_ok_bind, snd_mk, run_have, exec1, run_bind]
    cases dec with
    | none => rfl
    | some p => rfl

/-- **The loop body after the latch**: fetch, both bookkeeping blocks, `dispatch`, interrupt block. -/
theorem mainPhase_split (c : Core) :
    mainPhase.run c = StateT.run (do let x ← fetchBook; exec1 x; interruptCheck : Exec Unit) c := by
  unfold mainPhase fetchBook fetch
  simp -zeta only [bind_assoc, pure_bind]
  rw [run_bind, run_bind fetchAddr, fetchAddr_run, except_ok_bind, except_ok_bind, fst_mk, snd_mk]
  rw [run_bind, run_bind (programRead _)]
  cases hpr : (programRead (fetchAddress c.regs)).run { c with regs := bumpPc c.regs } with
  | error e => rw [except_error_bind, except_error_bind]
  | ok x =>
    obtain ⟨opcode, c2⟩ := x
    rw [except_ok_bind, except_ok_bind, fst_mk, snd_mk]
    generalize decoderArray.getD opcode.toNat none = dec
    rw [run_have, run_have, run_have, run_bind, run_have, run_have, run_have]
    have hne : ∀ (K : U16 → Exec Unit) (K' : U16 → Exec (Option InstrPat × U16 × U16)) (c3 : Core),
        (∀ e c4, (K e).run c4 = (K' e).run c4 >>= fun r =>
          StateT.run (do book; exec1 r.fst; interruptCheck : Exec Unit) r.snd) →
        ∀ ex : Bool,
        StateT.run (if ex = true then do let a ← fetchAddr; let e ← programRead a; K e else K 0) c3 =
        StateT.run (if ex = true then do let a ← fetchAddr; let e ← programRead a; K' e else K' 0) c3 >>= fun r =>
          StateT.run (do book; exec1 r.fst; interruptCheck : Exec Unit) r.snd := by
      intro K K' c3 hK ex
      cases ex
      · rw [if_neg Bool.false_ne_true, if_neg Bool.false_ne_true]
        exact hK 0 c3
      · rw [if_pos rfl, if_pos rfl, run_bind, run_bind fetchAddr, fetchAddr_run, except_ok_bind,
          except_ok_bind, fst_mk, snd_mk, run_bind, run_bind (programRead _)]
        cases (programRead (fetchAddress c3.regs)).run { c3 with regs := bumpPc c3.regs } with
        | error e => rw [except_error_bind, except_error_bind, except_error_bind]
        | ok y => rw [except_ok_bind, except_ok_bind]; exact hK _ _
    refine hne _ _ c2 ?_ _
    intro e c4
    rw [run_pure, except_ok_bind, fst_mk, snd_mk]
    exact tail_run dec opcode e c4

/-! ## closed forms of the fetch -/

/-- Fetch of a one-word instruction. -/
theorem fetch_one (c : Core) (w : U16) (accs : List Access) (p : InstrPat)
    (hread : c.bus.programRead (fetchAddress c.regs) = .ok (w, accs))
    (hdec : decoderArray.getD w.toNat none = some p) (hexp : p.expanded = false) :
    fetch.run c = .ok ((some p, w, 0), { c with regs := bumpPc c.regs, log := accs.reverse ++ c.log }) := by
  unfold fetch
  rw [run_bind, fetchAddr_run, except_ok_bind, fst_mk, snd_mk, run_bind,
    programRead_run { c with regs := bumpPc c.regs } _ w accs hread, except_ok_bind, fst_mk, snd_mk, hdec,
    run_have, run_have, run_have]
  simp -zeta only [hexp, Bool.false_eq_true, if_false]
  rfl

/-- Fetch of a two-word instruction. -/
theorem fetch_two (c : Core) (w w2 : U16) (accs accs2 : List Access) (p : InstrPat)
    (hread : c.bus.programRead (fetchAddress c.regs) = .ok (w, accs))
    (hdec : decoderArray.getD w.toNat none = some p) (hexp : p.expanded = true)
    (hread2 : c.bus.programRead (fetchAddress (bumpPc c.regs)) = .ok (w2, accs2)) :
    fetch.run c = .ok ((some p, w, w2),
      { c with regs := bumpPc (bumpPc c.regs), log := accs2.reverse ++ (accs.reverse ++ c.log) }) := by
  unfold fetch
  rw [run_bind, fetchAddr_run, except_ok_bind, fst_mk, snd_mk, run_bind,
    programRead_run { c with regs := bumpPc c.regs } _ w accs hread, except_ok_bind, fst_mk, snd_mk, hdec,
    run_have, run_have, run_have]
  simp -zeta only [hexp, if_true]
  rw [run_bind, fetchAddr_run, except_ok_bind, fst_mk, snd_mk, run_bind]
  have h2 := programRead_run ({ c with regs := bumpPc (bumpPc c.regs), log := accs.reverse ++ c.log } : Core)
    (fetchAddress (bumpPc c.regs)) w2 accs2 hread2
  dsimp only at h2 ⊢
  rw [h2, except_ok_bind, fst_mk, snd_mk, run_pure]

theorem fetchBook_run (c : Core) :
    fetchBook.run c = fetch.run c >>= fun x =>
      match loopBook (repBook x.2.regs) with
      | .ok r' => .ok (x.1, { x.2 with regs := r' })
      | .error e => .error e := by
  unfold fetchBook
  rw [run_bind]
  congr 1
  funext x
  rw [run_bind, book_run]
  cases loopBook (repBook x.2.regs) <;> rfl

/-- **One loop body** (`cycle`) on a one-word instruction: latch, fetch, the two bookkeeping
functions on the register file, `dispatch`, interrupt block. -/
theorem cycle_one (c : Core) (w : U16) (accs : List Access) (p : InstrPat)
    (hread : c.bus.programRead (fetchAddress (latchAll c)) = .ok (w, accs))
    (hdec : decoderArray.getD w.toNat none = some p) (hexp : p.expanded = false) :
    cycle.run c =
      match loopBook (repBook (bumpPc (latchAll c))) with
      | .ok r' => StateT.run (do dispatch p.idx (p.extract w.toNat 0); interruptCheck : Exec Unit)
                    { latched c with regs := r', log := accs.reverse ++ c.log }
      | .error e => .error e := by
  rw [cycle_eq_main, mainPhase_split, run_bind, fetchBook_run, fetch_one (latched c) w accs p hread hdec hexp,
    except_ok_bind]
  show (match loopBook (repBook (bumpPc (latchAll c))) with
      | .ok r' => Except.ok ((some p, w, (0 : U16)), ({ latched c with regs := r', log := accs.reverse ++ c.log } : Core))
      | .error e => .error e) >>= _ = _
  cases loopBook (repBook (bumpPc (latchAll c))) with
  | error e => rfl
  | ok r' => rfl

/-- **One loop body** on a two-word instruction. -/
theorem cycle_two (c : Core) (w w2 : U16) (accs accs2 : List Access) (p : InstrPat)
    (hread : c.bus.programRead (fetchAddress (latchAll c)) = .ok (w, accs))
    (hdec : decoderArray.getD w.toNat none = some p) (hexp : p.expanded = true)
    (hread2 : c.bus.programRead (fetchAddress (bumpPc (latchAll c))) = .ok (w2, accs2)) :
    cycle.run c =
      match loopBook (repBook (bumpPc (bumpPc (latchAll c)))) with
      | .ok r' => StateT.run (do dispatch p.idx (p.extract w.toNat w2.toNat); interruptCheck : Exec Unit)
                    { latched c with regs := r', log := accs2.reverse ++ (accs.reverse ++ c.log) }
      | .error e => .error e := by
  rw [cycle_eq_main, mainPhase_split, run_bind, fetchBook_run,
    fetch_two (latched c) w w2 accs accs2 p hread hdec hexp hread2, except_ok_bind]
  show (match loopBook (repBook (bumpPc (bumpPc (latchAll c)))) with
      | .ok r' => Except.ok ((some p, w, w2), ({ latched c with regs := r', log := accs2.reverse ++ (accs.reverse ++ c.log) } : Core))
      | .error e => .error e) >>= _ = _
  cases loopBook (repBook (bumpPc (bumpPc (latchAll c)))) with
  | error e => rfl
  | ok r' => rfl

/-! ## what the bookkeeping does to `pc, rep, repc, lp, bcn, bkrep`

In all lemmas `r` is the register file *before the fetch* where the statement is about `repBook`
(`bumpPc` is the fetch of a one-word instruction) and *after the fetch and `repBook`* where it is
about `loopBook`. -/

theorem getD_frame (v : Vector BkFrame 4) (i : Nat) (h : i < 4) : v.toArray.getD i {} = v[i] := by
  rw [Array.getD_eq_getD_getElem?, Array.getElem?_eq_getElem (by simpa using h)]
  rfl

/-- `rep` running, `repc ≠ 0`, one-word instruction: `pc` is back on the instruction, `repc` is
decremented, `rep` stays set. -/
theorem book_rep_more (r : Regs) (hrep : r.rep = true) (hn : r.repc ≠ 0) :
    repBook (bumpPc r) = { r with repc := r.repc - 1 } := by
  have h0 : (r.repc == 0) = false := by simpa using hn
  have hpc : (bumpPc r).pc - 1 = r.pc := by rw [bumpPc_pc]; bv_omega
  unfold repBook
  rw [bumpPc_rep, hrep, if_pos rfl]
  show (if (r.repc == 0) = true then _ else _) = _
  rw [h0, if_neg Bool.false_ne_true]
  rw [hpc]
  rfl

/-- `rep` running, `repc = 0`: `pc` has advanced past the instruction, `rep` is cleared. -/
theorem book_rep_last (r : Regs) (hrep : r.rep = true) (hz : r.repc = 0) :
    repBook (bumpPc r) = { r with pc := r.pc + 1, rep := false } := by
  have h0 : (r.repc == 0) = true := by simpa using hz
  unfold repBook
  rw [bumpPc_rep, hrep, if_pos rfl]
  show (if (r.repc == 0) = true then _ else _) = _
  rw [h0, if_pos rfl]
  rfl

/-- No `rep` running: nothing happens. -/
theorem book_rep_off (r : Regs) (hrep : r.rep = false) : repBook r = r := by
  unfold repBook
  rw [hrep, if_neg Bool.false_ne_true]

/-- Not inside a block repeat: nothing happens. -/
theorem book_loop_off (r : Regs) (hlp : r.lp = 0) : loopBook r = .ok r := by
  unfold loopBook
  rw [hlp]; rfl

/-- The three guards of `loopBook` under `lp ≠ 0`, `bcn = i + 1`, `i < 4`. -/
theorem loopBook_in (r : Regs) (i : Nat) (hlp : r.lp ≠ 0) (hb : r.bcn.toNat = i + 1) (hi : i < 4) :
    loopBook r =
      if r.bkrep[i].end_ + 1 = r.pc then
        if r.bkrep[i].lc = 0 then .ok { r with bcn := r.bcn - 1, lp := Alu.b2u (r.bcn - 1 != 0) }
        else .ok { r with bkrep := r.bkrep.set i { r.bkrep[i] with lc := r.bkrep[i].lc - 1 }, pc := r.bkrep[i].start }
      else .ok r := by
  have h1 : (r.lp != 0) = true := by simpa using hlp
  have hi' : r.bcn.toNat - 1 = i := by omega
  have h2 : (r.bcn == 0 || decide (r.bcn.toNat - 1 ≥ 4)) = false := by
    have : r.bcn ≠ 0 := by intro h; rw [h] at hb; simp at hb
    rw [Bool.or_eq_false_iff]
    refine ⟨by simpa using this, ?_⟩
    rw [decide_eq_false_iff_not]; omega
  unfold loopBook
  rw [h1, if_pos rfl]
  dsimp only
  rw [h2, if_neg Bool.false_ne_true, hi', getD_frame _ _ hi, dif_pos hi]
  by_cases he : r.bkrep[i].end_ + 1 = r.pc
  · have he' : (r.bkrep[i].end_ + 1 == r.pc) = true := by simpa using he
    rw [he', if_pos rfl, if_pos he]
    by_cases hl : r.bkrep[i].lc = 0
    · have hl' : (r.bkrep[i].lc == 0) = true := by simpa using hl
      rw [hl', if_pos rfl, if_pos hl]
    · have hl' : (r.bkrep[i].lc == 0) = false := by simpa using hl
      rw [hl', if_neg Bool.false_ne_true, if_neg hl]
  · have he' : (r.bkrep[i].end_ + 1 == r.pc) = false := by simpa using he
    rw [he', if_neg Bool.false_ne_true, if_neg he]

/-- Jump back: `pc` (after the fetch) is `end + 1` of the innermost frame and its counter is not
0: the counter is decremented and `pc := start`; nothing else changes. -/
theorem book_loop_back (r : Regs) (i : Nat) (hlp : r.lp ≠ 0) (hb : r.bcn.toNat = i + 1) (hi : i < 4)
    (hend : r.bkrep[i].end_ + 1 = r.pc) (hlc : r.bkrep[i].lc ≠ 0) :
    loopBook r = .ok { r with bkrep := r.bkrep.set i { r.bkrep[i] with lc := r.bkrep[i].lc - 1 },
                              pc := r.bkrep[i].start } := by
  rw [loopBook_in r i hlp hb hi, if_pos hend, if_neg hlc]

/-- Exit: `pc` is `end + 1` of the innermost frame and its counter is 0: `bcn` is decremented,
`lp` becomes `bcn - 1 ≠ 0`, `pc` falls through; the frames are untouched. -/
theorem book_loop_exit (r : Regs) (i : Nat) (hlp : r.lp ≠ 0) (hb : r.bcn.toNat = i + 1) (hi : i < 4)
    (hend : r.bkrep[i].end_ + 1 = r.pc) (hlc : r.bkrep[i].lc = 0) :
    loopBook r = .ok { r with bcn := r.bcn - 1, lp := Alu.b2u (r.bcn - 1 != 0) } := by
  rw [loopBook_in r i hlp hb hi, if_pos hend, if_pos hlc]

/-- Not at the end of the innermost block: nothing happens. -/
theorem book_loop_inside (r : Regs) (i : Nat) (hlp : r.lp ≠ 0) (hb : r.bcn.toNat = i + 1) (hi : i < 4)
    (hend : r.bkrep[i].end_ + 1 ≠ r.pc) : loopBook r = .ok r := by
  rw [loopBook_in r i hlp hb hi, if_neg hend]

/-- `lp` set with `bcn = 0` or `bcn > 4`: the C++ indexes `bkrep_stack[bcn - 1]` outside its four
entries; the model stops with `oob`. -/
theorem book_bcn_range (r : Regs) (hlp : r.lp ≠ 0) (hb : r.bcn = 0 ∨ 4 < r.bcn.toNat) :
    loopBook r = .error (.abort .oob) := by
  have h1 : (r.lp != 0) = true := by simpa using hlp
  have h2 : (r.bcn == 0 || decide (r.bcn.toNat - 1 ≥ 4)) = true := by
    rcases hb with hb | hb
    · simp [hb]
    · simp; right; omega
  unfold loopBook
  rw [h1, if_pos rfl]
  dsimp only
  rw [h2, if_pos rfl]

/-- … and so does the whole loop body (whatever instruction was fetched, provided the fetch itself
succeeds). -/
theorem cycle_bcn_range (c : Core) (x : (Option InstrPat × U16 × U16) × Core)
    (hf : fetch.run (latched c) = .ok x) (hlp : x.2.regs.lp ≠ 0)
    (hb : x.2.regs.bcn = 0 ∨ 4 < x.2.regs.bcn.toNat) :
    cycle.run c = .error (.abort .oob) := by
  have hlp' : (repBook x.2.regs).lp ≠ 0 := by
    unfold repBook; repeat' split
    all_goals exact hlp
  have hb' : (repBook x.2.regs).bcn = 0 ∨ 4 < (repBook x.2.regs).bcn.toNat := by
    unfold repBook; repeat' split
    all_goals exact hb
  rw [cycle_eq_main, mainPhase_split, run_bind, fetchBook_run, hf, except_ok_bind,
    book_bcn_range _ hlp' hb']
  rfl

end Teakra
