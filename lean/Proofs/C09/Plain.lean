import Proofs.C09.Book
/-!
# C09, part B (1) — straight-line instructions, the loop-state view, iteration

* `loopView c` erases from a machine state exactly what the loop machinery owns (`pc, rep, repc,
  lp, bcn, bkrep`) and the memory-access log (`Core.log`, pure instrumentation).  Two states with the
  same `loopView` and the same six loop registers are equal except for the log
  (`loopView_determines`).
* `Plain A h`: the handler `h` behaves like a straight-line instruction — it leaves alone what the
  loop machinery and the fetch depend on (`Kept`: the six loop registers, `prpage`, `ie`, the
  cross-thread latches, the program words at the addresses in `A`) and it neither reads the loop
  state nor the log (`blind`).
* `cycles n` = `n` loop bodies; `iter h n` = `h` executed `n` times; `seqH hs` = the handlers of a
  straight-line block, in order.
-/
namespace Teakra
open Exec ExecLemmas Interp Sys

/-- The register file without the loop state. -/
def Regs.noLoop (r : Regs) : Regs :=
  { r with pc := 0, rep := false, repc := 0, lp := 0, bcn := 0, bkrep := Vector.replicate 4 {} }

/-- The machine state without the loop state and without the access log. -/
def loopView (c : Core) : Core := { c with regs := c.regs.noLoop, log := [] }

/-- Same `loopView`, same loop registers: the states differ at most in the access log. -/
theorem loopView_determines (c₁ c₂ : Core) (h : loopView c₁ = loopView c₂)
    (hpc : c₁.regs.pc = c₂.regs.pc) (hrep : c₁.regs.rep = c₂.regs.rep) (hrepc : c₁.regs.repc = c₂.regs.repc)
    (hlp : c₁.regs.lp = c₂.regs.lp) (hbcn : c₁.regs.bcn = c₂.regs.bcn) (hbk : c₁.regs.bkrep = c₂.regs.bkrep) :
    { c₁ with log := [] } = { c₂ with log := [] } := by
  obtain ⟨r₁, b₁, l₁, e₁, ip₁, vp₁, vc₁, va₁, i₁⟩ := c₁
  obtain ⟨r₂, b₂, l₂, e₂, ip₂, vp₂, vc₂, va₂, i₂⟩ := c₂
  simp only [loopView, Core.mk.injEq] at h
  obtain ⟨hr, hb, -, he, hip, hvp, hvc, hva, hi⟩ := h
  subst hb he hip hvp hvc hva hi
  have : r₁ = r₂ := by
    cases r₁; cases r₂
    simp only [Regs.noLoop, Regs.mk.injEq] at hr
    simp only [] at hpc hrep hrepc hlp hbcn hbk
    simp only [Regs.mk.injEq]
    simp only [hr, hpc, hrep, hrepc, hlp, hbcn, hbk, and_self]
  subst this
  rfl

/-- What an outcome shows through `loopView`. -/
def seen (x : Except Stop (Unit × Core)) : Except Stop Core :=
  match x with
  | .ok r => .ok (loopView r.2)
  | .error e => .error e

/-- What a straight-line instruction must leave alone, between a state and a later one. -/
structure Kept (A : U32 → Prop) (c c' : Core) : Prop where
  pc : c'.regs.pc = c.regs.pc
  prpage : c'.regs.prpage = c.regs.prpage
  rep : c'.regs.rep = c.regs.rep
  repc : c'.regs.repc = c.regs.repc
  lp : c'.regs.lp = c.regs.lp
  bcn : c'.regs.bcn = c.regs.bcn
  bkrep : c'.regs.bkrep = c.regs.bkrep
  ie : c'.regs.ie = c.regs.ie
  ipend : c'.ipend = c.ipend
  vpend : c'.vpend = c.vpend
  prog : ∀ a, A a → c'.bus.programRead a = c.bus.programRead a

theorem Kept.refl (A : U32 → Prop) (c : Core) : Kept A c c :=
  ⟨rfl, rfl, rfl, rfl, rfl, rfl, rfl, rfl, rfl, rfl, fun _ _ => rfl⟩

theorem Kept.trans {A : U32 → Prop} {c₁ c₂ c₃ : Core} (h : Kept A c₁ c₂) (g : Kept A c₂ c₃) : Kept A c₁ c₃ :=
  ⟨g.pc.trans h.pc, g.prpage.trans h.prpage, g.rep.trans h.rep, g.repc.trans h.repc, g.lp.trans h.lp,
   g.bcn.trans h.bcn, g.bkrep.trans h.bkrep, g.ie.trans h.ie, g.ipend.trans h.ipend, g.vpend.trans h.vpend,
   fun a ha => (g.prog a ha).trans (h.prog a ha)⟩

/-- `h` behaves like a straight-line instruction: when it completes it has left alone everything
the loop machinery and the fetch depend on (`frame`), and its behaviour does not depend on the loop
state or the access log (`blind`) — it is the same instruction wherever and under whatever loop it
is executed. -/
structure Plain (A : U32 → Prop) (h : Exec Unit) : Prop where
  frame : ∀ c c', h.run c = .ok ((), c') → Kept A c c'
  blind : ∀ c₁ c₂, loopView c₁ = loopView c₂ → seen (h.run c₁) = seen (h.run c₂)

/-- `n` iterations of the loop body of `Run`. -/
def cycles : Nat → Exec Unit
  | 0 => pure ()
  | n + 1 => do cycle; cycles n

/-- `h` executed `n` times. -/
def iter (h : Exec Unit) : Nat → Exec Unit
  | 0 => pure ()
  | n + 1 => do h; iter h n

/-- The handlers of a straight-line block, in order. -/
def seqH : List (Exec Unit) → Exec Unit
  | [] => pure ()
  | h :: t => do h; seqH t

theorem cycles_succ (n : Nat) (c : Core) :
    (cycles (n + 1)).run c = cycle.run c >>= fun r => (cycles n).run r.2 := by
  rw [cycles, run_bind]
theorem iter_succ (h : Exec Unit) (n : Nat) (c : Core) :
    (iter h (n + 1)).run c = h.run c >>= fun r => (iter h n).run r.2 := by
  rw [iter, run_bind]
theorem seqH_cons (h : Exec Unit) (t : List (Exec Unit)) (c : Core) :
    (seqH (h :: t)).run c = h.run c >>= fun r => (seqH t).run r.2 := by
  rw [seqH, run_bind]

theorem cycles_one (c : Core) : (cycles 1).run c = cycle.run c := by
  rw [cycles_succ]; cases cycle.run c <;> rfl
theorem iter_one (h : Exec Unit) (c : Core) : (iter h 1).run c = h.run c := by
  rw [iter_succ]; cases h.run c <;> rfl

theorem cycles_add (m n : Nat) (c : Core) :
    (cycles (m + n)).run c = (cycles m).run c >>= fun r => (cycles n).run r.2 := by
  induction m generalizing c with
  | zero => rw [Nat.zero_add]; rfl
  | succ m ih =>
    rw [Nat.add_right_comm, cycles_succ, cycles_succ]
    cases cycle.run c with
    | error e => rfl
    | ok r => rw [except_ok_bind, except_ok_bind, ih]

/-- Sequencing respects the view. -/
theorem seen_bind {x y : Except Stop (Unit × Core)} {k k' : Exec Unit} (hxy : seen x = seen y)
    (hk : ∀ c₁ c₂, loopView c₁ = loopView c₂ → seen (k.run c₁) = seen (k'.run c₂)) :
    seen (x >>= fun r => k.run r.2) = seen (y >>= fun r => k'.run r.2) := by
  cases x with
  | error e =>
    cases y with
    | error e' => simpa [seen] using hxy
    | ok r' => simp [seen] at hxy
  | ok r =>
    cases y with
    | error e' => simp [seen] at hxy
    | ok r' =>
      rw [except_ok_bind, except_ok_bind]
      apply hk
      simpa [seen] using hxy

/-- Sequencing respects the view (the continuation may use where its states come from). -/
theorem seen_bind' {x y : Except Stop (Unit × Core)} {k k' : Exec Unit} (hxy : seen x = seen y)
    (hk : ∀ r r', x = .ok r → y = .ok r' → loopView r.2 = loopView r'.2 →
      seen (k.run r.2) = seen (k'.run r'.2)) :
    seen (x >>= fun r => k.run r.2) = seen (y >>= fun r => k'.run r.2) := by
  cases x with
  | error e =>
    cases y with
    | error e' => simpa [seen] using hxy
    | ok r' => simp [seen] at hxy
  | ok r =>
    cases y with
    | error e' => simp [seen] at hxy
    | ok r' =>
      rw [except_ok_bind, except_ok_bind]
      apply hk r r' rfl rfl
      simpa [seen] using hxy

theorem run_seq_ok {h g : Exec Unit} {c c' : Core} (hr : (h >>= fun _ => g).run c = .ok ((), c')) :
    ∃ c₁, h.run c = .ok ((), c₁) ∧ g.run c₁ = .ok ((), c') := by
  rw [run_bind] at hr
  cases hh : h.run c with
  | error e => rw [hh] at hr; cases hr
  | ok r => rw [hh] at hr; exact ⟨r.2, rfl, hr⟩

theorem Plain.pure (A : U32 → Prop) : Plain A (pure ()) :=
  ⟨fun c c' h => by cases h; exact Kept.refl A c, fun c₁ c₂ h => by rw [run_pure, run_pure]; exact congrArg Except.ok h⟩

theorem Plain.seq {A : U32 → Prop} {h g : Exec Unit} (ph : Plain A h) (pg : Plain A g) :
    Plain A (do h; g) := by
  constructor
  · intro c c' hr
    obtain ⟨c₁, h1, h2⟩ := run_seq_ok hr
    exact (ph.frame _ _ h1).trans (pg.frame _ _ h2)
  · intro c₁ c₂ hv
    show seen ((h >>= fun _ => g).run c₁) = seen ((h >>= fun _ => g).run c₂)
    rw [run_bind, run_bind]
    exact seen_bind (ph.blind _ _ hv) pg.blind

theorem Plain.iter {A : U32 → Prop} {h : Exec Unit} (ph : Plain A h) (n : Nat) : Plain A (iter h n) := by
  induction n with
  | zero => exact Plain.pure A
  | succ n ih => exact ph.seq ih

theorem Plain.seqH {A : U32 → Prop} {hs : List (Exec Unit)} (ph : ∀ h ∈ hs, Plain A h) : Plain A (seqH hs) := by
  induction hs with
  | nil => exact Plain.pure A
  | cons h t ih =>
    exact (ph h (List.mem_cons_self)).seq (ih fun g hg => ph g (List.mem_cons_of_mem _ hg))

/-- A handler that is a pure function of the register file is plain when that function keeps the
loop registers, `prpage` and `ie`, and commutes with erasing the loop state. -/
theorem Plain.modifyRegs (A : U32 → Prop) (f : Regs → Regs)
    (hk : ∀ r, (f r).pc = r.pc ∧ (f r).prpage = r.prpage ∧ (f r).rep = r.rep ∧ (f r).repc = r.repc ∧
      (f r).lp = r.lp ∧ (f r).bcn = r.bcn ∧ (f r).bkrep = r.bkrep ∧ (f r).ie = r.ie)
    (hc : ∀ r, (f r).noLoop = f r.noLoop) : Plain A (modifyRegs f) := by
  constructor
  · intro c c' hr
    cases hr
    obtain ⟨h1, h2, h3, h4, h5, h6, h7, h8⟩ := hk c.regs
    exact ⟨h1, h2, h3, h4, h5, h6, h7, h8, rfl, rfl, fun _ _ => rfl⟩
  · intro c₁ c₂ hv
    simp only [run_modifyRegs, seen, loopView, Except.ok.injEq, Core.mk.injEq] at hv ⊢
    obtain ⟨hr, hrest⟩ := hv
    exact ⟨by rw [hc, hc, hr], hrest⟩

/-- The same for a handler whose run is such a function. -/
theorem Plain.of_run (A : U32 → Prop) (h : Exec Unit) (f : Regs → Regs)
    (hrun : ∀ c, h.run c = .ok ((), { c with regs := f c.regs }))
    (hk : ∀ r, (f r).pc = r.pc ∧ (f r).prpage = r.prpage ∧ (f r).rep = r.rep ∧ (f r).repc = r.repc ∧
      (f r).lp = r.lp ∧ (f r).bcn = r.bcn ∧ (f r).bkrep = r.bkrep ∧ (f r).ie = r.ie)
    (hc : ∀ r, (f r).noLoop = f r.noLoop) : Plain A h := by
  have hm := Plain.modifyRegs A f hk hc
  constructor
  · intro c c' hr; exact hm.frame c c' (by rw [run_modifyRegs, ← hrun]; exact hr)
  · intro c₁ c₂ hv
    have := hm.blind c₁ c₂ hv
    rw [run_modifyRegs, run_modifyRegs] at this
    rw [hrun, hrun]; exact this

end Teakra
