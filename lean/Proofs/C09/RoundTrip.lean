import Proofs.C09.Restore
/-!
# C09, part C (4) — save then restore round-trips the frame and the flags

Word level: decoding the four words `StoreBlockRepeat` writes gives back `{start, end, lc}` and the
`lp` flag, provided the addresses fit in 18 bits and `lp` is 0 or 1 (the only values the core ever
stores).  Register level: the pure register parts of restore after store are the identity on
`bkrep, bcn, lp`.
-/
namespace Teakra
open Exec ExecLemmas Interp Sys

/-- A 32-bit word is its low half or-ed with its high half. -/
theorem split16 (x : U32) : ((x &&& 0xFFFF).setWidth 16).setWidth 32 ||| ((x >>> 16) <<< 16) = x := by
  apply BitVec.eq_of_getLsbD_eq
  intro i hi
  simp only [BitVec.getLsbD_or, BitVec.getLsbD_setWidth, BitVec.getLsbD_and, BitVec.getLsbD_shiftLeft,
    BitVec.getLsbD_ushiftRight]
  by_cases h16 : i < 16
  · have : (0xFFFF#32).getLsbD i = true := by
      have : i = 0 ∨ i = 1 ∨ i = 2 ∨ i = 3 ∨ i = 4 ∨ i = 5 ∨ i = 6 ∨ i = 7 ∨ i = 8 ∨ i = 9 ∨ i = 10 ∨
          i = 11 ∨ i = 12 ∨ i = 13 ∨ i = 14 ∨ i = 15 := by omega
      rcases this with rfl|rfl|rfl|rfl|rfl|rfl|rfl|rfl|rfl|rfl|rfl|rfl|rfl|rfl|rfl|rfl <;> rfl
    simp [h16, hi, this]
  · have e : 16 + (i - 16) = i := by omega
    simp [h16, hi, e]

/-- The flag word as a function of `lp` and the two high parts. -/
def packSmall (lp : U16) (sh eh : U32) : U16 :=
  let flag : U16 := lp <<< 15
  let flag : U16 := (flag.setWidth 32 ||| sh).setWidth 16
  (flag.setWidth 32 ||| (eh <<< 8)).setWidth 16

theorem packFlag_eq (lp : U16) (f : BkFrame) : packFlag lp f = packSmall lp (f.start >>> 16) (f.end_ >>> 16) := rfl

theorem small4 (x : U32) (h : x.toNat < 4) : x = 0 ∨ x = 1 ∨ x = 2 ∨ x = 3 := by
  have : x.toNat = 0 ∨ x.toNat = 1 ∨ x.toNat = 2 ∨ x.toNat = 3 := by omega
  rcases this with h | h | h | h
  · exact .inl (BitVec.eq_of_toNat_eq h)
  · exact .inr (.inl (BitVec.eq_of_toNat_eq h))
  · exact .inr (.inr (.inl (BitVec.eq_of_toNat_eq h)))
  · exact .inr (.inr (.inr (BitVec.eq_of_toNat_eq h)))

theorem hi_lt (x : U32) (h : x.toNat < 2 ^ 18) : (x >>> 16).toNat < 4 := by
  rw [BitVec.toNat_ushiftRight, Nat.shiftRight_eq_div_pow]; omega

/-- Unpacking the flag word: valid bit, high part of `start`, high part of `end`. -/
theorem packSmall_spec (lp : U16) (sh eh : U32) (hlp : lp = 0 ∨ lp = 1) (hs : sh.toNat < 4) (he : eh.toNat < 4) :
    validOf (packSmall lp sh eh) = lp ∧
    ((packSmall lp sh eh).setWidth 32 : U32) &&& 3 = sh ∧
    (((packSmall lp sh eh).setWidth 32 : U32) >>> 8) &&& 3 = eh := by
  rcases hlp with rfl | rfl <;> rcases small4 sh hs with rfl | rfl | rfl | rfl <;>
    rcases small4 eh he with rfl | rfl | rfl | rfl <;> decide

/-- **Round trip on the word level**: the four words `StoreBlockRepeat` writes for the frame `f`
and the flag `lp` decode (as `RestoreBlockRepeat` decodes them) to `f` and `lp`. -/
theorem restore_store_words (lp : U16) (f : BkFrame) (hlp : lp = 0 ∨ lp = 1)
    (hs : f.start.toNat < 2 ^ 18) (he : f.end_.toNat < 2 ^ 18) :
    frameOf ((packFlag lp f).setWidth 32) (low16 f.end_) (low16 f.start) f.lc = f ∧
    validOf (packFlag lp f) = lp := by
  obtain ⟨h1, h2, h3⟩ := packSmall_spec lp (f.start >>> 16) (f.end_ >>> 16) hlp (hi_lt _ hs) (hi_lt _ he)
  rw [packFlag_eq]
  refine ⟨?_, h1⟩
  unfold frameOf low16
  rw [h2, h3, split16, split16]

/-- The same through `restoreFrame`: frame 0 becomes `f` again. -/
theorem restoreFrame_pack (r : Regs) (lp : U16) (f : BkFrame) (hlp : lp = 0 ∨ lp = 1)
    (hs : f.start.toNat < 2 ^ 18) (he : f.end_.toNat < 2 ^ 18) :
    restoreFrame r (packFlag lp f) (low16 f.end_) (low16 f.start) f.lc = { r with bkrep := r.bkrep.set 0 f } := by
  have h := (restore_store_words lp f hlp hs he).1
  unfold restoreFrame
  unfold frameOf at h
  unfold unpackStart unpackEnd
  rw [h]

/-- The register part of `RestoreBlockRepeat` (everything but the address register), as a
function of the four words read. -/
def restorePure (r : Regs) (flag e s lc : U16) : Except Stop Regs :=
  match restoreShift r with
  | .error x => .error x
  | .ok r0 =>
    match restoreValid r0 flag with
    | .error x => .error x
    | .ok r1 => .ok (restoreFrame r1 flag e s lc)

theorem vec4_ext (v w : Vector BkFrame 4) (h0 : v[0] = w[0]) (h1 : v[1] = w[1]) (h2 : v[2] = w[2])
    (h3 : v[3] = w[3]) : v = w := by
  apply Vector.ext
  intro i hi
  have : i = 0 ∨ i = 1 ∨ i = 2 ∨ i = 3 := by omega
  rcases this with rfl | rfl | rfl | rfl <;> assumption

theorem small_bcn (x : U16) (h1 : 1 ≤ x.toNat) (h4 : x.toNat ≤ 4) : x = 1 ∨ x = 2 ∨ x = 3 ∨ x = 4 := by
  have : x.toNat = 1 ∨ x.toNat = 2 ∨ x.toNat = 3 ∨ x.toNat = 4 := by omega
  rcases this with h | h | h | h
  · exact .inl (BitVec.eq_of_toNat_eq h)
  · exact .inr (.inl (BitVec.eq_of_toNat_eq h))
  · exact .inr (.inr (.inl (BitVec.eq_of_toNat_eq h)))
  · exact .inr (.inr (.inr (BitVec.eq_of_toNat_eq h)))

/-- `std::copy(begin + 1, begin + n, begin)` on the frame stack. -/
def popV (bk : Vector BkFrame 4) (n : Nat) : Vector BkFrame 4 :=
  Vector.ofFn fun (k : Fin 4) => if k.val + 1 < n then bk.toArray.getD (k.val + 1) {} else bk[k]

/-- `std::copy_backward(begin, begin + n, begin + n + 1)` on the frame stack. -/
def pushV (bk : Vector BkFrame 4) (n : Nat) : Vector BkFrame 4 :=
  Vector.ofFn fun (k : Fin 4) => if 1 ≤ k.val ∧ k.val ≤ n then bk.toArray.getD (k.val - 1) {} else bk[k]

/-- The loop registers after the pop of `StoreBlockRepeat` (inside a loop). -/
def popped (r : Regs) : Regs :=
  { r with bkrep := popV r.bkrep r.bcn.toNat, bcn := r.bcn - 1, lp := if r.bcn - 1 = 0 then 0 else r.lp }

theorem storePop_on (r : Regs) (hlp : r.lp ≠ 0) (h1 : 1 ≤ r.bcn.toNat) (h4 : r.bcn.toNat ≤ 4) :
    storePop r = .ok (popped r) := by
  have hl : (r.lp != 0) = true := by simpa using hlp
  have hg : (r.bcn.toNat == 0 || decide (r.bcn.toNat > 4)) = false := by
    rw [Bool.or_eq_false_iff]
    exact ⟨by rw [beq_eq_false_iff_ne]; omega, by rw [decide_eq_false_iff_not]; omega⟩
  unfold storePop popped
  rw [if_pos hl, hg, if_neg Bool.false_ne_true]
  dsimp only
  by_cases hz : r.bcn - 1 = 0
  · have hz' : (r.bcn - 1 == 0) = true := by simpa using hz
    rw [if_pos hz', if_pos hz]; rfl
  · have hz' : (r.bcn - 1 == 0) = false := by simpa using hz
    rw [hz', if_neg Bool.false_ne_true, if_neg hz]; rfl

theorem storePop_off (r : Regs) (hlp : r.lp = 0) : storePop r = .ok r := by
  unfold storePop; rw [hlp]; rfl

theorem restoreShift_on (r : Regs) (hlp : r.lp ≠ 0) (hb : r.bcn.toNat ≤ 3) :
    restoreShift r = .ok { r with bkrep := pushV r.bkrep r.bcn.toNat, bcn := r.bcn + 1 } := by
  have hl : (r.lp != 0) = true := by simpa using hlp
  unfold restoreShift
  rw [if_pos hl, if_pos hb]; rfl

theorem restoreShift_off (r : Regs) (hlp : r.lp = 0) : restoreShift r = .ok r := by
  unfold restoreShift; rw [hlp]; rfl

theorem restoreValid_on (r : Regs) (flag : U16) (hlp : r.lp ≠ 0) (hv : validOf flag ≠ 0) :
    restoreValid r flag = .ok r := by
  have hl : (r.lp != 0) = true := by simpa using hlp
  have hv' : (validOf flag != 0) = true := by simpa using hv
  unfold restoreValid
  rw [if_pos hl, if_pos hv']

theorem restoreValid_off (r : Regs) (flag : U16) (hlp : r.lp = 0) :
    restoreValid r flag = .ok (if validOf flag = 0 then r else { r with bcn := 1, lp := 1 }) := by
  unfold restoreValid
  rw [hlp, if_neg (by decide)]
  by_cases hv : validOf flag = 0
  · rw [if_pos hv, hv]; rfl
  · have hv' : (validOf flag != 0) = true := by simpa using hv
    rw [if_neg hv, if_pos hv']

/-- Moving the upper frames down, back up, and putting frame 0 back is the identity. -/
theorem push_pop (bk : Vector BkFrame 4) (n : Nat) (h1 : 2 ≤ n) (h4 : n ≤ 4) :
    (pushV (popV bk n) (n - 1)).set 0 bk[0] = bk := by
  have hn : n = 2 ∨ n = 3 ∨ n = 4 := by omega
  rcases hn with rfl | rfl | rfl <;>
    (apply vec4_ext <;> simp [pushV, popV, Vector.getElem_ofFn])

theorem pop_one (bk : Vector BkFrame 4) : (popV bk 1).set 0 bk[0] = bk := by
  apply vec4_ext <;> simp [popV]

theorem set_self0 (bk : Vector BkFrame 4) : bk.set 0 bk[0] = bk := by
  apply vec4_ext <;> simp

theorem restorePure_eq {r' r0 r1 : Regs} {flag : U16} (e s lc : U16) (h1 : restoreShift r' = .ok r0)
    (h2 : restoreValid r0 flag = .ok r1) : restorePure r' flag e s lc = .ok (restoreFrame r1 flag e s lc) := by
  unfold restorePure
  rw [h1]
  dsimp only
  rw [h2]

theorem regs_eta (r : Regs) (bk : Vector BkFrame 4) (b l : U16) (h1 : bk = r.bkrep) (h2 : b = r.bcn)
    (h3 : l = r.lp) : ({ r with bkrep := bk, bcn := b, lp := l } : Regs) = r := by
  subst h1 h2 h3; rfl

/-- **Round trip on the register level.**  `StoreBlockRepeat` followed by `RestoreBlockRepeat`
(their register parts `storePop` and `restorePure`, the latter fed with the words the former wrote)
is the identity: all four frames, `bcn` and `lp` come back exactly — outside a loop (`lp = 0`) and
inside one at any nesting depth 1 … 4. -/
theorem restore_store_regs (r : Regs)
    (hs : r.bkrep[0].start.toNat < 2 ^ 18) (he : r.bkrep[0].end_.toNat < 2 ^ 18)
    (hcase : r.lp = 0 ∨ (r.lp = 1 ∧ 1 ≤ r.bcn.toNat ∧ r.bcn.toNat ≤ 4)) :
    ∃ r', storePop r = .ok r' ∧
      restorePure r' (packFlag r.lp r.bkrep[0]) (low16 r.bkrep[0].end_) (low16 r.bkrep[0].start) r.bkrep[0].lc =
        .ok r := by
  rcases hcase with hlp | ⟨hlp, h1, h4⟩
  · -- outside a loop: nothing is popped, the saved frame is marked invalid
    have hv := (restore_store_words r.lp r.bkrep[0] (.inl hlp) hs he).2
    refine ⟨r, storePop_off r hlp, ?_⟩
    have h2 : restoreValid r (packFlag r.lp r.bkrep[0]) = .ok r := by
      rw [restoreValid_off r _ hlp, if_pos (hv.trans hlp)]
    rw [restorePure_eq _ _ _ (restoreShift_off r hlp) h2, restoreFrame_pack r r.lp _ (.inl hlp) hs he, set_self0]
  · have hv := (restore_store_words r.lp r.bkrep[0] (.inr hlp) hs he).2
    have hlp0 : r.lp ≠ 0 := by rw [hlp]; decide
    have hv0 : validOf (packFlag r.lp r.bkrep[0]) ≠ 0 := by rw [hv]; exact hlp0
    refine ⟨_, storePop_on r hlp0 h1 h4, ?_⟩
    by_cases hone : r.bcn.toNat = 1
    · -- depth 1: the loop state is switched off by the store and on again by the restore
      have hb1 : r.bcn = 1 := BitVec.eq_of_toNat_eq hone
      have hz : r.bcn - 1 = 0 := by rw [hb1]; rfl
      have hl' : (popped r).lp = 0 := if_pos hz
      have h2 := restoreValid_off (popped r) (packFlag r.lp r.bkrep[0]) hl'
      rw [if_neg hv0] at h2
      rw [restorePure_eq _ _ _ (restoreShift_off _ hl') h2, restoreFrame_pack _ r.lp _ (.inr hlp) hs he]
      refine congrArg Except.ok (regs_eta r _ _ _ ?_ hb1.symm hlp.symm)
      show (popV r.bkrep r.bcn.toNat).set 0 r.bkrep[0] = r.bkrep
      rw [hone, pop_one]
    · -- depth 2 … 4: the upper frames move down and back up
      have hz : r.bcn - 1 ≠ 0 := by
        intro h0
        have := congrArg BitVec.toNat h0
        rw [BitVec.toNat_sub] at this
        simp at this; omega
      have hbt : (r.bcn - 1).toNat = r.bcn.toNat - 1 := by
        rw [BitVec.toNat_sub]; simp; omega
      have hback : r.bcn - 1 + 1 = r.bcn := by bv_omega
      have hl' : (popped r).lp ≠ 0 := by show (if r.bcn - 1 = 0 then (0 : U16) else r.lp) ≠ 0; rw [if_neg hz]; exact hlp0
      have h1' := restoreShift_on (popped r) hl' (by show (r.bcn - 1).toNat ≤ 3; omega)
      rw [restorePure_eq _ _ _ h1' (restoreValid_on _ _ hl' hv0), restoreFrame_pack _ r.lp _ (.inr hlp) hs he]
      refine congrArg Except.ok (regs_eta r _ _ _ ?_ hback (if_neg hz))
      show (pushV (popV r.bkrep r.bcn.toNat) (r.bcn - 1).toNat).set 0 r.bkrep[0] = r.bkrep
      rw [hbt, push_pop r.bkrep r.bcn.toNat (by omega) h4]

end Teakra
