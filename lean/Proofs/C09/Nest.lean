import Proofs.C09.Book
/-!
# C09, part B (4) — frame push / pop: block repeats nest four deep
-/
namespace Teakra
open Exec ExecLemmas Interp Sys

/-- `regs.bkrep_stack[i] = f(…)` (public copy of the private helper of `Exec/Control.lean`). -/
def setFrame' (r : Regs) (i : Nat) (f : BkFrame → BkFrame) : Regs :=
  if h : i < 4 then { r with bkrep := r.bkrep.set i (f r.bkrep[i]) } else r

theorem setFrame'_pos (r : Regs) (i : Nat) (f : BkFrame → BkFrame) (h : i < 4) :
    setFrame' r i f = { r with bkrep := r.bkrep.set i (f r.bkrep[i]) } := by
  unfold setFrame'; rw [dif_pos h]

theorem setFrame'_bcn (r : Regs) (i : Nat) (f : BkFrame → BkFrame) : (setFrame' r i f).bcn = r.bcn := by
  unfold setFrame'; split <;> rfl

/-- `BlockRepeat`, with the public `setFrame'`. -/
def blockRepeat' (lc : U16) (address : U32) : Exec Unit := do
  assert ((← getRegs).bcn.toNat ≤ 3)
  modifyRegs fun r =>
    let r := setFrame' r r.bcn.toNat fun f => { f with start := r.pc }
    let r := setFrame' r r.bcn.toNat fun f => { f with end_ := address }
    let r := setFrame' r r.bcn.toNat fun f => { f with lc := lc }
    { r with lp := 1, bcn := r.bcn + 1 }

theorem blockRepeat_eq (lc : U16) (address : U32) : Exec.blockRepeat lc address = blockRepeat' lc address := rfl

/-- `BlockRepeat` with `bcn ≤ 3` pushes the frame `{start := pc, end := address, lc}` at index
`bcn`, sets `lp` and increments `bcn`; nothing else changes. -/
theorem blockRepeat_push (lc : U16) (addr : U32) (c : Core) (i : Nat) (hb : c.regs.bcn.toNat = i) (hi : i < 4) :
    (Exec.blockRepeat lc addr).run c =
      .ok ((), { c with regs := { c.regs with
        bkrep := c.regs.bkrep.set i { start := c.regs.pc, end_ := addr, lc := lc },
        lp := 1, bcn := c.regs.bcn + 1 } }) := by
  rw [blockRepeat_eq]
  unfold blockRepeat'
  rw [run_bind, run_getRegs, except_ok_bind, fst_mk, snd_mk, run_bind]
  have : decide (c.regs.bcn.toNat ≤ 3) = true := by rw [hb]; exact decide_eq_true (by omega)
  rw [this, run_assert_true, except_ok_bind, snd_mk, run_modifyRegs]
  simp only [setFrame'_bcn, hb]
  simp only [setFrame'_pos _ i _ hi, Vector.getElem_set_self, Vector.set_set]

/-- `BlockRepeat` with four frames already on the stack: the `ASSERT(regs.bcn <= 3)` fires.
Block repeats nest four deep and no deeper. -/
theorem blockRepeat_full (lc : U16) (addr : U32) (c : Core) (hb : 4 ≤ c.regs.bcn.toNat) :
    (Exec.blockRepeat lc addr).run c = .error (.abort .assert) := by
  rw [blockRepeat_eq]
  unfold blockRepeat'
  rw [run_bind, run_getRegs, except_ok_bind, fst_mk, snd_mk, run_bind]
  have : decide (c.regs.bcn.toNat ≤ 3) = false := decide_eq_false (by omega)
  rw [this, run_assert_false, except_error_bind]

/-- `break` inside a block repeat pops one level: `bcn` is decremented and `lp` becomes
`bcn - 1 ≠ 0`; frames and `pc` are untouched. -/
theorem break_spec (c : Core) (hlp : c.regs.lp ≠ 0) :
    Exec.break_.run c =
      .ok ((), { c with regs := { c.regs with bcn := c.regs.bcn - 1, lp := Alu.b2u (c.regs.bcn - 1 != 0) } }) := by
  unfold Exec.break_
  rw [run_bind, run_getRegs, except_ok_bind, fst_mk, snd_mk, run_bind]
  have : (c.regs.lp != 0) = true := by simpa using hlp
  rw [this, run_assert_true, except_ok_bind, snd_mk, run_bind, run_modifyRegs, except_ok_bind, snd_mk,
    run_modifyRegs]

/-- `break` outside a block repeat: `ASSERT(regs.lp)` fires. -/
theorem break_outside (c : Core) (hlp : c.regs.lp = 0) : Exec.break_.run c = .error (.abort .assert) := by
  unfold Exec.break_
  rw [run_bind, run_getRegs, except_ok_bind, fst_mk, snd_mk, run_bind]
  have : (c.regs.lp != 0) = false := by simp [hlp]
  rw [this, run_assert_false, except_error_bind]

theorem b2u_true : Alu.b2u true = 1 := rfl
theorem b2u_false : Alu.b2u false = 0 := rfl

/-- Exit of a nested block (`bcn ≥ 2`): `lp` stays 1, `bcn` is decremented, all frames — the outer
ones in particular — are intact and `pc` falls through. -/
theorem nested_exit (r : Regs) (i : Nat) (hlp : r.lp ≠ 0) (hb : r.bcn.toNat = i + 2) (hi : i + 1 < 4)
    (hend : r.bkrep[i + 1].end_ + 1 = r.pc) (hlc : r.bkrep[i + 1].lc = 0) :
    loopBook r = .ok { r with bcn := r.bcn - 1, lp := 1 } := by
  rw [book_loop_exit r (i + 1) hlp hb hi hend hlc]
  have : (r.bcn - 1 != 0) = true := by
    rw [bne_iff_ne]; intro h0
    have := congrArg BitVec.toNat h0
    rw [BitVec.toNat_sub] at this
    simp at this; omega
  rw [this, b2u_true]

/-- Exit of the outermost block (`bcn = 1`): the in-loop state clears, `lp = 0`, `bcn = 0`. -/
theorem outer_exit (r : Regs) (hlp : r.lp ≠ 0) (hb : r.bcn.toNat = 1)
    (hend : r.bkrep[0].end_ + 1 = r.pc) (hlc : r.bkrep[0].lc = 0) :
    loopBook r = .ok { r with bcn := 0, lp := 0 } := by
  rw [book_loop_exit r 0 hlp hb (by omega) hend hlc]
  have hb1 : r.bcn = 1 := BitVec.eq_of_toNat_eq hb
  rw [hb1]; rfl

end Teakra
