import Proofs.C09.Plain
import Proofs.C10.Rn
/-!
# C09 — real handlers are `Plain` (non-vacuity of the hypotheses of the counting theorems)
-/
namespace Teakra
open Exec ExecLemmas Interp Sys

/-- `nop` -/
theorem plain_nop (A : U32 → Prop) : Plain A Exec.nop := Plain.pure A

/-- `load page, #imm8` -/
theorem plain_load_page (A : U32 → Prop) (a : Nat) : Plain A (Exec.load_page_Imm8 a) :=
  Plain.modifyRegs A _ (fun _ => ⟨rfl, rfl, rfl, rfl, rfl, rfl, rfl, rfl⟩) (fun _ => rfl)

/-- `load modi, #imm9` -/
theorem plain_load_modi (A : U32 → Prop) (a : Nat) : Plain A (Exec.load_modi_Imm9 a) :=
  Plain.modifyRegs A _ (fun _ => ⟨rfl, rfl, rfl, rfl, rfl, rfl, rfl, rfl⟩) (fun _ => rfl)

/-- What `modr (Rn), step` does to the register file: `RnAndModify`, then `fr := (Rn == 0)`. -/
def modrF (unit : Nat) (step : StepValue) (dmod : Bool) (r : Regs) : Regs :=
  let r1 : Regs := { r with r := vset r.r unit (rnNext r unit step dmod) }
  { r1 with fr := Alu.b2u (r1.r.toArray.getD unit 0 == 0) }

theorem modr_run (a as_ : Nat) (c : Core) :
    (Exec.modr_Rn_StepZIDS a as_).run c =
      .ok ((), { c with regs := modrF a (StepZIDS.name as_) false c.regs }) := by
  unfold Exec.modr_Rn_StepZIDS
  simp only [run_bind, rnAndModify_run, except_ok_bind]
  rfl

/-- `modr (Rn), step` (address-register post-modification, the typical body of a `rep`). -/
theorem plain_modr (A : U32 → Prop) (a as_ : Nat) : Plain A (Exec.modr_Rn_StepZIDS a as_) :=
  Plain.of_run A _ (modrF a (StepZIDS.name as_) false) (modr_run a as_)
    (fun _ => ⟨rfl, rfl, rfl, rfl, rfl, rfl, rfl, rfl⟩) (fun _ => rfl)

end Teakra
