import Proofs.C09.Plain
/-!
# C09 — a small calculus for handlers that only touch the register file

`RegOnly h f`: the handler `h` is the function `f` on the register file (it neither reads nor
writes bus, logs, latches).  `LoopFree f`: `f` keeps the loop registers, `prpage` and `ie`, and
commutes with erasing the loop state.  Both are closed under `pure` and `>>=`; together they give
`Plain`.  Used to show that accumulator arithmetic (`add`, `sub` between accumulators) is `Plain`.
-/
namespace Teakra
open Exec ExecLemmas Interp Sys

def RegOnly {α : Type} (h : Exec α) (f : Regs → Except Stop (α × Regs)) : Prop :=
  ∀ c : Core, h.run c = (f c.regs).map fun x => (x.1, { c with regs := x.2 })

structure LoopFree {α : Type} (f : Regs → Except Stop (α × Regs)) : Prop where
  keep : ∀ r a r', f r = .ok (a, r') →
    r'.pc = r.pc ∧ r'.prpage = r.prpage ∧ r'.rep = r.rep ∧ r'.repc = r.repc ∧ r'.lp = r.lp ∧
    r'.bcn = r.bcn ∧ r'.bkrep = r.bkrep ∧ r'.ie = r.ie
  comm : ∀ r, f r.noLoop = (f r).map fun x => (x.1, x.2.noLoop)

theorem RegOnly.pure {α : Type} (a : α) : RegOnly (pure a : Exec α) (fun r => .ok (a, r)) := fun _ => rfl
theorem LoopFree.pure {α : Type} (a : α) : LoopFree (fun r => (.ok (a, r) : Except Stop (α × Regs))) :=
  ⟨fun r a' r' h => by cases h; exact ⟨rfl, rfl, rfl, rfl, rfl, rfl, rfl, rfl⟩, fun _ => rfl⟩

theorem RegOnly.bind {α β : Type} {h : Exec α} {k : α → Exec β} {f : Regs → Except Stop (α × Regs)}
    {g : α → Regs → Except Stop (β × Regs)} (hh : RegOnly h f) (hk : ∀ a, RegOnly (k a) (g a)) :
    RegOnly (h >>= k) (fun r => f r >>= fun x => g x.1 x.2) := by
  intro c
  rw [run_bind, hh c]
  show _ = Except.map _ (f c.regs >>= fun x => g x.1 x.2)
  cases f c.regs with
  | error e => rfl
  | ok x =>
    show (k x.1).run { c with regs := x.2 } = Except.map _ (g x.1 x.2)
    rw [hk x.1]

theorem LoopFree.bind {α β : Type} {f : Regs → Except Stop (α × Regs)}
    {g : α → Regs → Except Stop (β × Regs)} (hf : LoopFree f) (hg : ∀ a, LoopFree (g a)) :
    LoopFree (fun r => f r >>= fun x => g x.1 x.2) := by
  constructor
  · intro r b r' h
    cases hfr : f r with
    | error e => simp only [hfr] at h; cases h
    | ok x =>
      simp only [hfr] at h
      obtain ⟨a1, a2, a3, a4, a5, a6, a7, a8⟩ := hf.keep r x.1 x.2 hfr
      obtain ⟨b1, b2, b3, b4, b5, b6, b7, b8⟩ := (hg x.1).keep x.2 b r' h
      exact ⟨b1.trans a1, b2.trans a2, b3.trans a3, b4.trans a4, b5.trans a5, b6.trans a6, b7.trans a7,
        b8.trans a8⟩
  · intro r
    show (f r.noLoop >>= fun x => g x.1 x.2) = _
    rw [hf.comm r]
    cases f r with
    | error e => rfl
    | ok x =>
      show g x.1 x.2.noLoop = _
      rw [(hg x.1).comm x.2]
      rfl

/-- A handler that only touches the register file, through a loop-free function, is plain. -/
theorem Plain.of_regOnly (A : U32 → Prop) {h : Exec Unit} {f : Regs → Except Stop (Unit × Regs)}
    (hr : RegOnly h f) (hf : LoopFree f) : Plain A h := by
  constructor
  · intro c c' hrun
    rw [hr c] at hrun
    cases hfr : f c.regs with
    | error e => rw [hfr] at hrun; cases hrun
    | ok x =>
      rw [hfr] at hrun
      cases hrun
      obtain ⟨a1, a2, a3, a4, a5, a6, a7, a8⟩ := hf.keep c.regs x.1 x.2 hfr
      exact ⟨a1, a2, a3, a4, a5, a6, a7, a8, rfl, rfl, fun _ _ => rfl⟩
  · intro c₁ c₂ hv
    have hregs : c₁.regs.noLoop = c₂.regs.noLoop := congrArg Core.regs hv
    have key : ∀ c : Core, seen (h.run c) =
        (f c.regs.noLoop).map fun x => ({ loopView c with regs := x.2 } : Core) := by
      intro c
      rw [hr c, hf.comm c.regs]
      cases f c.regs <;> rfl
    rw [key, key, hregs]
    cases f c₂.regs.noLoop with
    | error e => rfl
    | ok x =>
      show Except.ok _ = Except.ok _
      congr 1
      have := hv
      simp only [loopView, Core.mk.injEq] at this ⊢
      exact ⟨trivial, this.2⟩

end Teakra
