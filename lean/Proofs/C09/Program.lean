import Proofs.C09.BlockRun
import Proofs.C09.Nest
/-!
# C09, part B (7) — the `bkrep` instruction followed by its block
-/
namespace Teakra
open Exec ExecLemmas Interp Sys

theorem ofNat32_toNat (x : U32) : BitVec.ofNat 32 x.toNat = x := by
  rw [BitVec.ofNat_toNat, BitVec.setWidth_eq]

/-- `bkrep #lc, addr16` is `BlockRepeat(lc, addr16 | (pc & 0x30000))`. -/
theorem bkrep_Imm8_run (a w : Nat) (x : Core) :
    (Exec.bkrep_Imm8_Address16 a w).run x =
      (Exec.blockRepeat (imm16 a) (BitVec.ofNat 32 w ||| (x.regs.pc &&& 0x30000))).run x := by
  unfold Exec.bkrep_Imm8_Address16
  rw [run_have, run_bind, run_getRegs, except_ok_bind, fst_mk, snd_mk, run_have]

/-- `bkrep r6, addr18` is `BlockRepeat(r6, addr18)`. -/
theorem bkrep_r6_run (lo hi : Nat) (x : Core) :
    (Exec.bkrep_r6_Address18_16_Address18_2 lo hi).run x =
      (Exec.blockRepeat x.regs.r[6] (address18 lo hi)).run x := by
  unfold Exec.bkrep_r6_Address18_16_Address18_2
  rw [run_bind, run_getRegs, except_ok_bind, fst_mk, snd_mk, run_have, run_have]

/-- The register file after `BlockRepeat(lc, addr)` at nesting depth `i`. -/
def pushFrame (r : Regs) (i : Fin 4) (lc : U16) (addr : U32) : Regs :=
  { r with bkrep := r.bkrep.set i.1 { start := r.pc, end_ := addr, lc := lc } i.2, lp := 1, bcn := r.bcn + 1 }

theorem blockRepeat_push' (lc : U16) (addr : U32) (c : Core) (i : Fin 4) (hb : c.regs.bcn.toNat = i.1) :
    (Exec.blockRepeat lc addr).run c = .ok ((), { c with regs := pushFrame c.regs i lc addr }) :=
  blockRepeat_push lc addr c i.1 hb i.2

/-- **`bkrep lc, end` followed by its block executes the block exactly `lc + 1` times**, for every
`lc` in 0 … 65535 and at every nesting depth `i = bcn < 4`.  `hb` is the handler of the two-word
`bkrep` instruction at `pc` (count from an immediate or a register: `hrun`); the block
`pc + 2 … end` consists of the plain instructions `h0 :: t`; the `bkrep` instruction is not itself
the last instruction of an enclosing block (`hbook`).  `1 + (lc + 1) * k` loop bodies give the
outcome of `lc + 1` executions of the block and end behind it with the frame popped (`BlkExit`:
`bcn` back to `i`, `lp = (i ≠ 0)`, the enclosing frames intact). -/
theorem bkrep_program {A : U32 → Prop} {i : Fin 4} (c : Core) (lc : U16) (addr : U32) (hb h0 : Exec Unit)
    (t : List (Exec Unit))
    (hrep : c.regs.rep = false) (hie : c.regs.ie = 0)
    (hip : c.ipend = Vector.replicate 3 false) (hvp : c.vpend = false)
    (hbcn : c.regs.bcn.toNat = i.1)
    (hbook : loopBook (adv c.regs 2) = .ok (adv c.regs 2))
    (hfb : Fetches2 c.bus (fetchAddress c.regs) (fetchAddress (bumpPc c.regs)) hb)
    (hrun : ∀ x : Core, x.regs = adv c.regs 2 → hb.run x = (Exec.blockRepeat lc addr).run x)
    (he : addr.toNat + 1 < 2 ^ 32)
    (hA : ∀ n, (c.regs.pc + 2).toNat ≤ n → n ≤ addr.toNat → A (fAddr c.regs.prpage (BitVec.ofNat 32 n)))
    (hp : ∀ g ∈ h0 :: t, Plain A g)
    (hc : Code c.bus c.regs.prpage (c.regs.pc + 2).toNat (h0 :: t) (addr.toNat + 1)) :
    seen ((cycles (1 + (lc.toNat + 1) * (t.length + 1))).run c) =
      seen ((iter (seqH (h0 :: t)) (lc.toNat + 1)).run c) ∧
    ∀ c', (cycles (1 + (lc.toNat + 1) * (t.length + 1))).run c = .ok ((), c') →
      BlkExit A c.bus c.regs.prpage i (c.regs.pc + 2).toNat addr.toNat c.regs.bkrep (c.regs.bcn + 1) c' := by
  obtain ⟨w, w2, accs, accs2, p, hread, hdec, hexp, hread2, rfl⟩ := hfb
  have hl := latchAll_quiet c hip hvp
  have hbook' : loopBook (repBook (bumpPc (bumpPc c.regs))) = .ok (adv c.regs 2) := by
    rw [bumpPc2_eq_adv, book_rep_off _ (show (adv c.regs 2).rep = false from hrep)]; exact hbook
  have hpush := blockRepeat_push' lc addr
    ({ c with regs := adv c.regs 2, log := accs2.reverse ++ (accs.reverse ++ c.log) } : Core) i hbcn
  have h1 : ∃ c1 : Core, cycle.run c = .ok ((), c1) ∧ loopView c1 = loopView c ∧
      BlkState A c.bus c.regs.prpage i (c.regs.pc + 2).toNat addr.toNat c.regs.bkrep (c.regs.bcn + 1)
        (c.regs.pc + 2).toNat lc c1 := by
    refine ⟨({ c with regs := pushFrame (adv c.regs 2) i lc addr,
                      log := accs2.reverse ++ (accs.reverse ++ c.log) } : Core), ?_, ?_, ?_⟩
    · rw [cycle_two c w w2 accs accs2 p (by rw [hl]; exact hread) hdec hexp (by rw [hl]; exact hread2), hl, hbook',
        latched_quiet c hip hvp]
      show StateT.run (dispatch p.idx (p.extract w.toNat w2.toNat) >>= fun _ => interruptCheck) _ = _
      rw [run_bind, hrun _ rfl, hpush, except_ok_bind, snd_mk]
      apply interruptCheck_noop
      unfold deliverable
      show ((c.regs.ie != 0) && _ && _) = false
      rw [hie]; rfl
    · rfl
    · refine ⟨?_, rfl, hrep, (by show (1 : U16) ≠ 0; decide), rfl, ?_, hie, hip, hvp, fun _ _ => rfl⟩
      · show c.regs.pc + BitVec.ofNat 32 2 = _
        rw [ofNat32_toNat]; rfl
      · show c.regs.bkrep.set i.1 { start := c.regs.pc + BitVec.ofNat 32 2, end_ := addr, lc := lc } i.2 = _
        unfold blkFrame
        rw [ofNat32_toNat, ofNat32_toNat]; rfl
  obtain ⟨c1, hc1, hv, hs⟩ := h1
  have hb1 : (c.regs.bcn + 1).toNat = i.1 + 1 := by
    rw [BitVec.toNat_add, hbcn]
    have := i.2
    show (i.1 + 1) % 65536 = _
    omega
  obtain ⟨k1, k2⟩ := bkrep_unrolled_nat (b0 := c.bus) hb1 he hA h0 t hp hc lc.toNat lc.isLt c1
    (by rw [BitVec.ofNat_toNat, BitVec.setWidth_eq]; exact hs)
  rw [cycles_add, cycles_one, hc1, except_ok_bind, snd_mk]
  exact ⟨k1.trans (((Plain.seqH hp).iter _).blind _ _ hv), k2⟩

end Teakra
