import Proofs.C09.Block
/-!
# C09, part B (6) — `bkrep`: one instruction, one pass over the block, `lc + 1` passes
-/
namespace Teakra
open Exec ExecLemmas Interp Sys

section
variable {A : U32 → Prop} {b0 : Bus} {pg : U16} {i : Fin 4} {s e : Nat} {bk : Vector BkFrame 4} {bcn : U16}

/-- What one pass over the rest of the block leads to: the start of the block with the counter
decremented, or — when the counter was 0 — the exit. -/
def BlkNext (A : U32 → Prop) (b0 : Bus) (pg : U16) (i : Fin 4) (s e : Nat) (bk : Vector BkFrame 4)
    (bcn : U16) (n : U16) (c' : Core) : Prop :=
  (n ≠ 0 → BlkState A b0 pg i s e bk bcn s (n - 1) c') ∧ (n = 0 → BlkExit A b0 pg i s e bk bcn c')

/-- **One instruction of the block.**  The loop body is the handler run in a state `c₁` that
differs from `c` only in loop registers and log; afterwards the machine is at the next instruction,
or — behind the last instruction — back at the start with the counter decremented, or out of the
block when the counter was 0. -/
theorem blk_step (hbcn : bcn.toNat = i.1 + 1) (he : e + 1 < 2 ^ 32)
    (hA : ∀ n, s ≤ n → n ≤ e → A (fAddr pg (BitVec.ofNat 32 n)))
    {h : Exec Unit} (ph : Plain A h) {a ℓ : Nat} {n : U16} {c : Core}
    (hf : FetchesL b0 pg a ℓ h) (hsa : s ≤ a) (hle : a + ℓ ≤ e + 1)
    (hs : BlkState A b0 pg i s e bk bcn a n c) :
    ∃ c₁ : Core, loopView c₁ = loopView c ∧ cycle.run c = h.run c₁ ∧
      ∀ c', h.run c₁ = .ok ((), c') →
        (a + ℓ < e + 1 → BlkState A b0 pg i s e bk bcn (a + ℓ) n c') ∧
        (a + ℓ = e + 1 → BlkNext A b0 pg i s e bk bcn n c') := by
  have hfc : FetchesL c.bus pg a ℓ h :=
    hf.of_prog hs.prog fun m h1 h2 => hA m (by omega) (by omega)
  have hbook := blk_book hbcn he hs ℓ hle
  by_cases hae : a + ℓ = e + 1
  · rw [if_pos hae] at hbook
    by_cases hn : n = 0
    · rw [if_pos hn] at hbook
      obtain ⟨accs, hc⟩ := cycle_plainL ph c pg a ℓ hs.ipend hs.vpend hs.pc hs.prpage hfc _ hbook (.inl hs.ie)
      refine ⟨_, ?_, hc, ?_⟩
      · rfl
      intro c' hr
      have k := ph.frame _ _ hr
      refine ⟨fun hlt => absurd hae (Nat.ne_of_lt hlt), fun _ => ⟨fun h0 => absurd hn h0, fun _ => ?_⟩⟩
      exact ⟨k.pc.trans (by show c.regs.pc + _ = _; rw [hs.pc, ← BitVec.ofNat_add, hae]), k.prpage.trans hs.prpage,
        k.rep.trans hs.rep, k.lp, k.bcn, k.bkrep.trans (by show c.regs.bkrep = _; rw [hs.bkrep, hn]),
        k.ie.trans hs.ie, k.ipend.trans hs.ipend, k.vpend.trans hs.vpend,
        fun x hx => (k.prog x hx).trans (hs.prog x hx)⟩
    · rw [if_neg hn] at hbook
      obtain ⟨accs, hc⟩ := cycle_plainL ph c pg a ℓ hs.ipend hs.vpend hs.pc hs.prpage hfc _ hbook (.inl hs.ie)
      refine ⟨_, ?_, hc, ?_⟩
      · rfl
      intro c' hr
      have k := ph.frame _ _ hr
      refine ⟨fun hlt => absurd hae (Nat.ne_of_lt hlt), fun _ => ⟨fun _ => ?_, fun h0 => absurd h0 hn⟩⟩
      exact ⟨k.pc, k.prpage.trans hs.prpage, k.rep.trans hs.rep, fun h0 => hs.lp (k.lp.symm.trans h0),
        k.bcn.trans hs.bcn, k.bkrep, k.ie.trans hs.ie, k.ipend.trans hs.ipend, k.vpend.trans hs.vpend,
        fun x hx => (k.prog x hx).trans (hs.prog x hx)⟩
  · rw [if_neg hae] at hbook
    obtain ⟨accs, hc⟩ := cycle_plainL ph c pg a ℓ hs.ipend hs.vpend hs.pc hs.prpage hfc _ hbook (.inl hs.ie)
    refine ⟨_, ?_, hc, ?_⟩
    · rfl
    intro c' hr
    have k := ph.frame _ _ hr
    refine ⟨fun _ => ?_, fun h0 => absurd h0 hae⟩
    exact ⟨k.pc.trans (by show c.regs.pc + _ = _; rw [hs.pc, ← BitVec.ofNat_add]), k.prpage.trans hs.prpage,
      k.rep.trans hs.rep, fun h0 => hs.lp (k.lp.symm.trans h0), k.bcn.trans hs.bcn, k.bkrep.trans hs.bkrep,
      k.ie.trans hs.ie, k.ipend.trans hs.ipend, k.vpend.trans hs.vpend,
      fun x hx => (k.prog x hx).trans (hs.prog x hx)⟩

theorem seqH_single (h : Exec Unit) (c : Core) : (seqH [h]).run c = h.run c := by
  rw [seqH_cons]; cases h.run c <;> rfl

/-- **One pass over the rest of the block** from address `a` (`t.length + 1` instructions to go):
the loop bodies are the handlers in order, and the pass ends at the start of the block with the
counter decremented, or outside the block when the counter was 0. -/
theorem blk_pass (hbcn : bcn.toNat = i.1 + 1) (he : e + 1 < 2 ^ 32)
    (hA : ∀ n, s ≤ n → n ≤ e → A (fAddr pg (BitVec.ofNat 32 n))) (n : U16) :
    ∀ (t : List (Exec Unit)) (h : Exec Unit) (a : Nat) (c : Core),
      (∀ g ∈ h :: t, Plain A g) → Code b0 pg a (h :: t) (e + 1) → s ≤ a →
      BlkState A b0 pg i s e bk bcn a n c →
      seen ((cycles (t.length + 1)).run c) = seen ((seqH (h :: t)).run c) ∧
      ∀ c', (cycles (t.length + 1)).run c = .ok ((), c') → BlkNext A b0 pg i s e bk bcn n c' := by
  intro t
  induction t with
  | nil =>
    intro h a c hp hc hsa hs
    cases hc with
    | cons hf hrest =>
      have hae := (hrest.le.2.1 rfl)
      obtain ⟨c₁, hv, hcy, hnext⟩ := blk_step hbcn he hA (hp h List.mem_cons_self) hf hsa (Nat.le_of_eq hae) hs
      show seen ((cycles 1).run c) = _ ∧ ∀ c', (cycles 1).run c = _ → _
      rw [cycles_one, seqH_single, hcy]
      exact ⟨(hp h List.mem_cons_self).blind _ _ hv, fun c' hr => (hnext c' hr).2 hae⟩
  | cons h' t' ih =>
    intro h a c hp hc hsa hs
    cases hc with
    | cons hf hrest =>
      rename_i ℓ
      have hlt : a + ℓ < e + 1 := hrest.le.2.2 (List.cons_ne_nil _ _)
      have hlen := hf.len
      obtain ⟨c₁, hv, hcy, hnext⟩ := blk_step hbcn he hA (hp h List.mem_cons_self) hf hsa (Nat.le_of_lt hlt) hs
      have hp' : ∀ g ∈ h' :: t', Plain A g := fun g hg => hp g (List.mem_cons_of_mem _ hg)
      show seen ((cycles (t'.length + 1 + 1)).run c) = _ ∧ ∀ c', (cycles (t'.length + 1 + 1)).run c = _ → _
      rw [cycles_succ, seqH_cons, hcy]
      constructor
      · refine seen_bind' ((hp h List.mem_cons_self).blind _ _ hv) ?_
        intro r r' hr _ h12
        obtain ⟨⟨⟩, c₂⟩ := r
        have hst := (hnext c₂ hr).1 hlt
        rw [(ih h' (a + ℓ) c₂ hp' hrest (by omega) hst).1]
        exact (Plain.seqH hp').blind _ _ h12
      · intro c' hr
        cases hh : h.run c₁ with
        | error err => rw [hh] at hr; cases hr
        | ok r =>
          obtain ⟨⟨⟩, c₂⟩ := r
          rw [hh, except_ok_bind] at hr
          have hst := (hnext c₂ hh).1 hlt
          exact (ih h' (a + ℓ) c₂ hp' hrest (by omega) hst).2 c' hr

theorem ofNat16_succ_ne (N : Nat) (hN : N + 1 < 65536) : BitVec.ofNat 16 (N + 1) ≠ 0 := by
  have h1 : N + 1 < 65536 := hN
  intro h0
  have := congrArg BitVec.toNat h0
  simp at this; omega

theorem ofNat16_succ_sub (N : Nat) (hN : N + 1 < 65536) : BitVec.ofNat 16 (N + 1) - 1 = BitVec.ofNat 16 N := by
  have h1 : N + 1 < 65536 := hN
  apply BitVec.eq_of_toNat_eq; simp; omega

/-- **`bkrep`, counting** (counter as a natural number). -/
theorem bkrep_unrolled_nat (hbcn : bcn.toNat = i.1 + 1) (he : e + 1 < 2 ^ 32)
    (hA : ∀ n, s ≤ n → n ≤ e → A (fAddr pg (BitVec.ofNat 32 n)))
    (h0 : Exec Unit) (t : List (Exec Unit)) (hp : ∀ g ∈ h0 :: t, Plain A g)
    (hc : Code b0 pg s (h0 :: t) (e + 1)) :
    ∀ (N : Nat), N < 65536 → ∀ c : Core, BlkState A b0 pg i s e bk bcn s (BitVec.ofNat 16 N) c →
      seen ((cycles ((N + 1) * (t.length + 1))).run c) = seen ((iter (seqH (h0 :: t)) (N + 1)).run c) ∧
      ∀ c', (cycles ((N + 1) * (t.length + 1))).run c = .ok ((), c') → BlkExit A b0 pg i s e bk bcn c' := by
  intro N
  induction N with
  | zero =>
    intro _ c hs
    obtain ⟨p1, p2⟩ := blk_pass hbcn he hA _ t h0 s c hp hc (Nat.le_refl _) hs
    rw [Nat.zero_add, Nat.one_mul, iter_one]
    exact ⟨p1, fun c' hr => (p2 c' hr).2 rfl⟩
  | succ N ih =>
    intro hN c hs
    obtain ⟨p1, p2⟩ := blk_pass hbcn he hA _ t h0 s c hp hc (Nat.le_refl _) hs
    rw [Nat.succ_mul, Nat.add_comm, cycles_add, iter_succ]
    constructor
    · refine seen_bind' p1 ?_
      intro r r' hr _ h12
      obtain ⟨⟨⟩, c₂⟩ := r
      have hst := (p2 c₂ hr).1 (ofNat16_succ_ne N hN)
      rw [ofNat16_succ_sub N hN] at hst
      rw [(ih (Nat.lt_of_succ_lt hN) c₂ hst).1]
      exact ((Plain.seqH hp).iter _).blind _ _ h12
    · intro c' hr
      cases hh : (cycles (t.length + 1)).run c with
      | error err => rw [hh] at hr; cases hr
      | ok r =>
        obtain ⟨⟨⟩, c₂⟩ := r
        rw [hh, except_ok_bind] at hr
        have hst := (p2 c₂ hh).1 (ofNat16_succ_ne N hN)
        rw [ofNat16_succ_sub N hN] at hst
        exact (ih (Nat.lt_of_succ_lt hN) c₂ hst).2 c' hr

/-- **The loop counter counts down once per iteration**: after `j ≤ N` passes over the block the
machine is back at the start of the block and the counter the program sees in the frame is `N - j`. -/
theorem bkrep_counter_nat (hbcn : bcn.toNat = i.1 + 1) (he : e + 1 < 2 ^ 32)
    (hA : ∀ n, s ≤ n → n ≤ e → A (fAddr pg (BitVec.ofNat 32 n)))
    (h0 : Exec Unit) (t : List (Exec Unit)) (hp : ∀ g ∈ h0 :: t, Plain A g)
    (hc : Code b0 pg s (h0 :: t) (e + 1)) (N : Nat) (hN : N < 65536) (c : Core)
    (hs : BlkState A b0 pg i s e bk bcn s (BitVec.ofNat 16 N) c) :
    ∀ j, j ≤ N → ∀ cj, (cycles (j * (t.length + 1))).run c = .ok ((), cj) →
      BlkState A b0 pg i s e bk bcn s (BitVec.ofNat 16 (N - j)) cj := by
  intro j
  induction j with
  | zero =>
    intro _ cj hr
    rw [Nat.zero_mul] at hr
    cases hr
    exact hs
  | succ j ih =>
    intro hj c' hr
    rw [Nat.succ_mul, cycles_add] at hr
    cases hh : (cycles (j * (t.length + 1))).run c with
    | error err => rw [hh] at hr; cases hr
    | ok r =>
      obtain ⟨⟨⟩, cj⟩ := r
      rw [hh, except_ok_bind] at hr
      have hst := ih (by omega) cj hh
      have hsplit : N - j = (N - (j + 1)) + 1 := by omega
      rw [hsplit] at hst
      have p2 := (blk_pass hbcn he hA _ t h0 s cj hp hc (Nat.le_refl _) hst).2 c' hr
      have := p2.1 (ofNat16_succ_ne _ (by omega))
      rw [ofNat16_succ_sub _ (by omega)] at this
      exact this

end

/-- **`bkrep` executes its block exactly `lc + 1` times.**  The machine is at the start `s` of the
innermost block repeat `s … e` (frame `i`, `bcn = i + 1`, `lp` set) whose counter is `N` (any value
0 … 65535); interrupts are disabled and no latch is pending; the block consists of the plain one- or
two-word instructions with handlers `h0 :: t` (`Code`; a two-word instruction may be the last one).
Then `(N + 1) * k` loop bodies (`k` the number of instructions)

* give the outcome of executing the handler sequence `N + 1` times — equality of everything but the
  loop registers and the access log, aborts included — and
* end behind the block (`pc = e + 1`) with `bcn` decremented, `lp = (bcn - 1 ≠ 0)`, the frame's
  counter at 0 and every other frame untouched (`BlkExit`). -/
theorem bkrep_unrolled {A : U32 → Prop} {pg : U16} {i : Fin 4} {s e : Nat} {bk : Vector BkFrame 4} {bcn : U16}
    (hbcn : bcn.toNat = i.1 + 1) (he : e + 1 < 2 ^ 32)
    (hA : ∀ n, s ≤ n → n ≤ e → A (fAddr pg (BitVec.ofNat 32 n)))
    (h0 : Exec Unit) (t : List (Exec Unit)) (hp : ∀ g ∈ h0 :: t, Plain A g)
    (N : U16) (c : Core) (hc : Code c.bus pg s (h0 :: t) (e + 1))
    (hs : BlkState A c.bus pg i s e bk bcn s N c) :
    seen ((cycles ((N.toNat + 1) * (t.length + 1))).run c) =
      seen ((iter (seqH (h0 :: t)) (N.toNat + 1)).run c) ∧
    ∀ c', (cycles ((N.toNat + 1) * (t.length + 1))).run c = .ok ((), c') →
      BlkExit A c.bus pg i s e bk bcn c' := by
  apply bkrep_unrolled_nat hbcn he hA h0 t hp hc N.toNat N.isLt c
  rw [BitVec.ofNat_toNat, BitVec.setWidth_eq]; exact hs

/-- **The counter counts down once per iteration.**  Same setting; after `j ≤ N` passes the
machine is at the start of the block again and the frame's counter is `N - j`. -/
theorem bkrep_counter {A : U32 → Prop} {pg : U16} {i : Fin 4} {s e : Nat} {bk : Vector BkFrame 4} {bcn : U16}
    (hbcn : bcn.toNat = i.1 + 1) (he : e + 1 < 2 ^ 32)
    (hA : ∀ n, s ≤ n → n ≤ e → A (fAddr pg (BitVec.ofNat 32 n)))
    (h0 : Exec Unit) (t : List (Exec Unit)) (hp : ∀ g ∈ h0 :: t, Plain A g)
    (N : U16) (c : Core) (hc : Code c.bus pg s (h0 :: t) (e + 1))
    (hs : BlkState A c.bus pg i s e bk bcn s N c) (j : Nat) (hj : j ≤ N.toNat) (cj : Core)
    (hr : (cycles (j * (t.length + 1))).run c = .ok ((), cj)) :
    BlkState A c.bus pg i s e bk bcn s (N - BitVec.ofNat 16 j) cj := by
  have := bkrep_counter_nat hbcn he hA h0 t hp hc N.toNat N.isLt c
    (by rw [BitVec.ofNat_toNat, BitVec.setWidth_eq]; exact hs) j hj cj hr
  have e2 : BitVec.ofNat 16 (N.toNat - j) = N - BitVec.ofNat 16 j := by
    apply BitVec.eq_of_toNat_eq
    have := N.isLt
    rw [BitVec.toNat_sub, BitVec.toNat_ofNat, BitVec.toNat_ofNat]
    rw [Nat.mod_eq_of_lt (by omega), Nat.mod_eq_of_lt (show j < 2 ^ 16 by omega)]
    omega
  rw [← e2]; exact this

end Teakra
