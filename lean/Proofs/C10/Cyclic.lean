import Proofs.C10.Mod
/-!
# C10, part 4 — the cyclic successor / predecessor stay in the buffer, are mutually inverse and
have period `mod + 1`
-/
namespace Teakra.Interp

/-- The cyclic successor keeps the address inside the same buffer: the bits above the buffer's
alignment are untouched and the offset stays `≤ mod`. -/
theorem wrapInc_stays (mod a : U16) (hm : mod ≠ 0) (hin : InBuf mod a) :
    wrapInc mod a &&& ~~~lowMask mod = a &&& ~~~lowMask mod ∧ InBuf mod (wrapInc mod a) := by
  obtain ⟨h1, h2, h3, h4⟩ := log2p1_spec mod hm
  rw [← BitVec.toNat_inj, lowMask_eq, and_not_maskK_toNat _ _ h4, and_not_maskK_toNat _ _ h4,
    inBuf_iff mod _ _ rfl]
  rw [inBuf_iff mod a _ rfl] at hin
  have hW := wrapInc_toNat mod a _ rfl
  have hl := a.isLt
  generalize (wrapInc mod a).toNat = W at *
  generalize log2p1 mod = k at *
  generalize a.toNat = A at *
  generalize mod.toNat = M at *
  interval_cases k <;> simp only [Nat.reducePow, Nat.reduceSub] at * <;> split_ifs at hW <;> omega

/-- The cyclic predecessor keeps the address inside the same buffer. -/
theorem wrapDec_stays (mod a : U16) (hm : mod ≠ 0) (hin : InBuf mod a) :
    wrapDec mod a &&& ~~~lowMask mod = a &&& ~~~lowMask mod ∧ InBuf mod (wrapDec mod a) := by
  obtain ⟨h1, h2, h3, h4⟩ := log2p1_spec mod hm
  rw [← BitVec.toNat_inj, lowMask_eq, and_not_maskK_toNat _ _ h4, and_not_maskK_toNat _ _ h4,
    inBuf_iff mod _ _ rfl]
  rw [inBuf_iff mod a _ rfl] at hin
  have hW := wrapDec_toNat mod a _ rfl
  have hl := a.isLt
  generalize (wrapDec mod a).toNat = W at *
  generalize log2p1 mod = k at *
  generalize a.toNat = A at *
  generalize mod.toNat = M at *
  interval_cases k <;> simp only [Nat.reducePow, Nat.reduceSub] at * <;> split_ifs at hW <;> omega

/-- Stepping back undoes stepping forward, everywhere in the buffer (including the wrap). -/
theorem wrapDec_wrapInc (mod a : U16) (hm : mod ≠ 0) (hin : InBuf mod a) :
    wrapDec mod (wrapInc mod a) = a := by
  obtain ⟨h1, h2, h3, h4⟩ := log2p1_spec mod hm
  apply BitVec.eq_of_toNat_eq
  rw [wrapDec_toNat mod _ _ rfl]
  rw [inBuf_iff mod a _ rfl] at hin
  have hW := wrapInc_toNat mod a _ rfl
  have hl := a.isLt
  generalize (wrapInc mod a).toNat = W at *
  generalize log2p1 mod = k at *
  generalize a.toNat = A at *
  generalize mod.toNat = M at *
  interval_cases k <;> simp only [Nat.reducePow, Nat.reduceSub] at * <;> split_ifs at hW ⊢ <;> omega

/-- Stepping forward undoes stepping back. -/
theorem wrapInc_wrapDec (mod a : U16) (hm : mod ≠ 0) (hin : InBuf mod a) :
    wrapInc mod (wrapDec mod a) = a := by
  obtain ⟨h1, h2, h3, h4⟩ := log2p1_spec mod hm
  apply BitVec.eq_of_toNat_eq
  rw [wrapInc_toNat mod _ _ rfl]
  rw [inBuf_iff mod a _ rfl] at hin
  have hW := wrapDec_toNat mod a _ rfl
  have hl := a.isLt
  generalize (wrapDec mod a).toNat = W at *
  generalize log2p1 mod = k at *
  generalize a.toNat = A at *
  generalize mod.toNat = M at *
  interval_cases k <;> simp only [Nat.reducePow, Nat.reduceSub] at * <;> split_ifs at hW ⊢ <;> omega

/-! ## iteration -/

theorem repeat_add {α : Type} (f : α → α) (m n : Nat) (a : α) :
    Nat.repeat f (m + n) a = Nat.repeat f m (Nat.repeat f n a) := by
  induction m with
  | zero => simp [Nat.repeat]
  | succ m ih => rw [Nat.succ_add]; simp only [Nat.repeat, ih]

/-- Iterating inside the buffer stays inside the buffer. -/
theorem repeat_wrapInc_inBuf (mod a : U16) (hm : mod ≠ 0) (hin : InBuf mod a) (n : Nat) :
    InBuf mod (Nat.repeat (wrapInc mod) n a) := by
  induction n with
  | zero => exact hin
  | succ n ih => exact (wrapInc_stays mod _ hm ih).2

private theorem offset_add (mod a : U16) (hm : mod ≠ 0) (j : Nat)
    (h : (a &&& lowMask mod).toNat + j ≤ mod.toNat) :
    ((a + BitVec.ofNat 16 j) &&& lowMask mod).toNat = (a &&& lowMask mod).toNat + j ∧
    (a + BitVec.ofNat 16 j) &&& ~~~lowMask mod = a &&& ~~~lowMask mod := by
  obtain ⟨h1, h2, h3, h4⟩ := log2p1_spec mod hm
  rw [← BitVec.toNat_inj]
  rw [lowMask_eq] at *
  rw [and_maskK_toNat a _ h4] at *
  rw [and_maskK_toNat _ _ h4, and_not_maskK_toNat _ _ h4, and_not_maskK_toNat _ _ h4, BitVec.toNat_add, BitVec.toNat_ofNat]
  have hl := a.isLt
  generalize log2p1 mod = k at *
  generalize a.toNat = A at *
  generalize mod.toNat = M at *
  interval_cases k <;> simp only [Nat.reducePow, Nat.reduceSub] at * <;> omega

/-- While the end of the buffer is not reached, `j` steps add `j`. -/
theorem repeat_wrapInc_lt (mod a : U16) (hm : mod ≠ 0) (j : Nat)
    (h : (a &&& lowMask mod).toNat + j ≤ mod.toNat) :
    Nat.repeat (wrapInc mod) j a = a + BitVec.ofNat 16 j := by
  induction j with
  | zero => simp [Nat.repeat]
  | succ j ih =>
    simp only [Nat.repeat]
    rw [ih (by omega)]
    have ho := (offset_add mod a hm j (by omega)).1
    have hne : ¬ ((a + BitVec.ofNat 16 j) &&& lowMask mod = mod) := by
      intro e; rw [e] at ho; omega
    unfold wrapInc
    rw [if_neg hne]
    apply BitVec.eq_of_toNat_eq
    have e1 : (1 : U16).toNat = 1 := rfl
    simp only [BitVec.toNat_add, BitVec.toNat_ofNat, e1]
    omega

/-- **Period.**  From any address inside the buffer, `mod + 1` steps by +1 return to the start. -/
theorem wrapInc_cyclic (mod a : U16) (hm : mod ≠ 0) (hin : InBuf mod a) :
    Nat.repeat (wrapInc mod) (mod.toNat + 1) a = a := by
  unfold InBuf at hin
  -- r steps after the wrap, one wrapping step, (mod - r) steps before
  have hsplit : mod.toNat + 1 = (a &&& lowMask mod).toNat + (1 + (mod.toNat - (a &&& lowMask mod).toNat)) := by
    omega
  rw [hsplit, repeat_add, repeat_add]
  rw [repeat_wrapInc_lt mod a hm _ (by omega)]
  obtain ⟨ho, hh⟩ := offset_add mod a hm (mod.toNat - (a &&& lowMask mod).toNat) (by omega)
  have hend : (a + BitVec.ofNat 16 (mod.toNat - (a &&& lowMask mod).toNat)) &&& lowMask mod = mod := by
    apply BitVec.eq_of_toNat_eq; rw [ho]; omega
  have hwrap : Nat.repeat (wrapInc mod) 1 (a + BitVec.ofNat 16 (mod.toNat - (a &&& lowMask mod).toNat)) =
      a &&& ~~~lowMask mod := by
    simp only [Nat.repeat]
    unfold wrapInc
    rw [if_pos hend, hh]
  rw [hwrap]
  have hbase : ((a &&& ~~~lowMask mod) &&& lowMask mod).toNat = 0 := by
    have : (a &&& ~~~lowMask mod) &&& lowMask mod = 0 := by
      ext i hi
      simp only [BitVec.getElem_and, BitVec.getElem_not]
      cases a[i] <;> cases (lowMask mod)[i] <;> simp
    rw [this]; rfl
  rw [repeat_wrapInc_lt mod _ hm _ (by rw [hbase]; omega), and_not_eq_sub]
  apply BitVec.eq_of_toNat_eq
  simp only [BitVec.toNat_add, BitVec.toNat_sub, BitVec.toNat_ofNat]
  have := a.isLt
  have := (a &&& lowMask mod).isLt
  have : (a &&& lowMask mod).toNat ≤ a.toNat := by
    rw [BitVec.toNat_and]; exact Nat.and_le_left
  omega

/-- Iterated predecessor undoes iterated successor. -/
theorem repeat_wrapDec_wrapInc (mod a : U16) (hm : mod ≠ 0) (hin : InBuf mod a) (n : Nat) :
    Nat.repeat (wrapDec mod) n (Nat.repeat (wrapInc mod) n a) = a := by
  induction n generalizing a with
  | zero => rfl
  | succ n ih =>
    have e : Nat.repeat (wrapInc mod) (n + 1) a = Nat.repeat (wrapInc mod) n (wrapInc mod a) := by
      rw [repeat_add]; rfl
    rw [e]
    simp only [Nat.repeat]
    rw [ih (wrapInc mod a) (wrapInc_stays mod a hm hin).2]
    exact wrapDec_wrapInc mod a hm hin

/-- **Period, backwards.**  `mod + 1` steps by −1 also return to the start. -/
theorem wrapDec_cyclic (mod a : U16) (hm : mod ≠ 0) (hin : InBuf mod a) :
    Nat.repeat (wrapDec mod) (mod.toNat + 1) a = a := by
  have h := repeat_wrapDec_wrapInc mod a hm hin (mod.toNat + 1)
  rwa [wrapInc_cyclic mod a hm hin] at h

end Teakra.Interp
