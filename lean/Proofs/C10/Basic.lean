import TeakraModel.Interp
import Mathlib.Tactic.IntervalCases
/-!
# C10, part 1 — `log2p1`, `lowMask`, mask arithmetic
-/
namespace Teakra.Interp

/-- `log2p1` of a non-zero 16-bit value brackets it between two consecutive powers of two and
lies in `1..16`. -/
theorem log2p1_spec (v : U16) (hv : v ≠ 0) :
    2 ^ (log2p1 v - 1) ≤ v.toNat ∧ v.toNat < 2 ^ log2p1 v ∧ 1 ≤ log2p1 v ∧ log2p1 v ≤ 16 := by
  have hne : v.toNat ≠ 0 := fun h => hv (BitVec.eq_of_toNat_eq h)
  have h0 : (v == 0) = false := by simpa using hv
  unfold log2p1
  rw [h0]
  simp only [Bool.false_eq_true, if_false, Nat.add_sub_cancel]
  have h1 := Nat.log2_self_le hne
  have h2 : v.toNat < 2 ^ (v.toNat.log2 + 1) := Nat.lt_log2_self
  refine ⟨h1, h2, by omega, ?_⟩
  have h3 : v.toNat.log2 < 16 := (Nat.log2_lt hne).2 v.isLt
  omega

theorem log2p1_zero : log2p1 0 = 0 := by decide

/-- `log2p1` never exceeds 16. -/
theorem log2p1_le (v : U16) : log2p1 v ≤ 16 := by
  by_cases hv : v = 0
  · subst hv; decide
  · exact (log2p1_spec v hv).2.2.2

/-- `log2p1` is characterised by the bracket. -/
theorem log2p1_unique (v : U16) (k : Nat) (hk : 1 ≤ k) (h1 : 2 ^ (k - 1) ≤ v.toNat) (h2 : v.toNat < 2 ^ k) :
    log2p1 v = k := by
  have hv : v ≠ 0 := by
    intro h; subst h
    have : 0 < 2 ^ (k - 1) := Nat.two_pow_pos _
    have h0 : (0 : U16).toNat = 0 := rfl
    omega
  obtain ⟨a, b, c, d⟩ := log2p1_spec v hv
  have e1 : log2p1 v - 1 < k := (Nat.pow_lt_pow_iff_right (by decide : 1 < 2)).1 (by omega)
  have e2 : k - 1 < log2p1 v := (Nat.pow_lt_pow_iff_right (by decide : 1 < 2)).1 (by omega)
  omega

/-- The all-ones mask of `k` low bits, as the code computes it: `(1 << k) - 1` in 16 bits. -/
def maskK (k : Nat) : U16 := BitVec.ofNat 16 (2 ^ k) - 1

theorem lowMask_eq (m : U16) : lowMask m = maskK (log2p1 m) := rfl

theorem maskK_toNat (k : Nat) (hk : k ≤ 16) : (maskK k).toNat = 2 ^ k - 1 := by
  unfold maskK
  interval_cases k <;> decide

/-- `lowMask m` is `2^(log2p1 m) − 1` (`0xFFFF` when `log2p1 m = 16`, `0` when `m = 0`). -/
theorem lowMask_toNat (m : U16) : (lowMask m).toNat = 2 ^ log2p1 m - 1 :=
  maskK_toNat _ (log2p1_le m)

theorem and_maskK_toNat (a : U16) (k : Nat) (hk : k ≤ 16) : (a &&& maskK k).toNat = a.toNat % 2 ^ k := by
  rw [BitVec.toNat_and, maskK_toNat k hk, Nat.and_two_pow_sub_one_eq_mod]

private theorem split_or (a M : U16) : (a &&& M) ||| (a &&& ~~~M) = a := by
  ext i hi
  simp only [BitVec.getElem_or, BitVec.getElem_and, BitVec.getElem_not]
  cases a[i] <;> cases M[i] <;> rfl

private theorem split_disj (a M : U16) : (a &&& M) &&& (a &&& ~~~M) = 0 := by
  ext i hi
  simp only [BitVec.getElem_and, BitVec.getElem_not]
  cases a[i] <;> cases M[i] <;> simp

private theorem sub_of_add (x y a : U16) (h : x + y = a) : y = a - x := by
  subst h
  apply BitVec.eq_of_toNat_eq
  simp only [BitVec.toNat_sub, BitVec.toNat_add]
  have := x.isLt; have := y.isLt
  omega

theorem and_not_eq_sub (a M : U16) : a &&& ~~~M = a - (a &&& M) := by
  have h := BitVec.add_eq_or_of_and_eq_zero _ _ (split_disj a M)
  rw [split_or] at h
  exact sub_of_add _ _ _ h

theorem and_not_maskK_toNat (a : U16) (k : Nat) (hk : k ≤ 16) :
    (a &&& ~~~maskK k).toNat = a.toNat - a.toNat % 2 ^ k := by
  rw [and_not_eq_sub, BitVec.toNat_sub, and_maskK_toNat a k hk]
  have := a.isLt
  have : a.toNat % 2 ^ k ≤ a.toNat := Nat.mod_le _ _
  omega

/-- A value below `2^k` has no bits above the mask. -/
theorem and_not_maskK_eq_zero (n : U16) (k : Nat) (hk : k ≤ 16) (hn : n.toNat < 2 ^ k) :
    n &&& ~~~maskK k = 0 := by
  apply BitVec.eq_of_toNat_eq
  rw [and_not_maskK_toNat n k hk, Nat.mod_eq_of_lt hn]
  simp

/-- Joining high bits and a low part that fits under the mask is an addition. -/
theorem join_toNat (a n : U16) (k : Nat) (hk : k ≤ 16) (hn : n.toNat < 2 ^ k) :
    ((a &&& ~~~maskK k) ||| n).toNat = a.toNat - a.toNat % 2 ^ k + n.toNat := by
  have hz : (a &&& ~~~maskK k) &&& n = 0 := by
    have h0 := and_not_maskK_eq_zero n k hk hn
    ext i hi
    have hb : (n &&& ~~~maskK k)[i] = (0 : U16)[i] := by rw [h0]
    simp only [BitVec.getElem_and, BitVec.getElem_not] at hb ⊢
    revert hb
    cases a[i] <;> cases (maskK k)[i] <;> cases n[i] <;> simp
  rw [← BitVec.add_eq_or_of_and_eq_zero _ _ hz, BitVec.toNat_add, and_not_maskK_toNat a k hk]
  have := a.isLt
  have h1 : a.toNat % 2 ^ k ≤ a.toNat := Nat.mod_le _ _
  have h2 : a.toNat - a.toNat % 2 ^ k + 2 ^ k ≤ 65536 := by
    interval_cases k <;> simp only [Nat.reducePow] at * <;> omega
  omega

/-- Bitwise: joining a low part that fits under the mask does not disturb the high bits. -/
theorem join_high (a n M : U16) (hn : n &&& ~~~M = 0) : ((a &&& ~~~M) ||| n) &&& ~~~M = a &&& ~~~M := by
  ext i hi
  have hb : (n &&& ~~~M)[i] = (0 : U16)[i] := by rw [hn]
  simp only [BitVec.getElem_and, BitVec.getElem_or, BitVec.getElem_not] at hb ⊢
  revert hb
  cases a[i] <;> cases M[i] <;> cases n[i] <;> simp

theorem and_mask_high_zero (x M : U16) : (x &&& M) &&& ~~~M = 0 := by
  ext i hi
  simp only [BitVec.getElem_and, BitVec.getElem_not]
  cases x[i] <;> cases M[i] <;> simp

end Teakra.Interp
