import Proofs.C10.Step
/-!
# C10, part 6 — bit reversal, `RnAddress`, `RnAndModify`
-/
namespace Teakra.Interp
open Exec

/-- Bit reversal is an involution. -/
theorem bitReverse_involutive (v : U16) : Alu.bitReverse (Alu.bitReverse v) = v := by
  unfold Alu.bitReverse
  exact BitVec.reverse_reverse_eq

/-- Bit `i` of the reversed word is bit `15 - i` of the original. -/
theorem bitReverse_getElem (v : U16) (i : Nat) (h : i < 16) :
    (Alu.bitReverse v)[i] = v[15 - i] := by
  unfold Alu.bitReverse
  rw [BitVec.getElem_reverse, BitVec.getMsbD_eq_getLsbD]
  simp [h]
  rw [BitVec.getLsbD_eq_getElem]

/-- `RnAddress`: the memory address is the bit-reversed register value exactly when the register
is in bit-reversal mode with modulo off, else the value itself; the state is untouched. -/
theorem rnAddress_brv (unit : Nat) (value : U16) (c : Core) :
    (rnAddress unit value).run c =
      .ok (if brOf c.regs unit ≠ 0 ∧ mOf c.regs unit = 0 then Alu.bitReverse value else value, c) := by
  unfold rnAddress brOf mOf
  simp [getRegs]
  split <;> rfl

/-- The end-pointer exception of `RnAndModify`: r3 with `epi` set, or r7 with `epj` set, and a step
kind other than the four "step by 2" kinds. -/
def EndPointer (r : Regs) (unit : Nat) (step : StepValue) : Prop :=
  ((unit = 3 ∧ r.epi ≠ 0) ∨ (unit = 7 ∧ r.epj ≠ 0)) ∧
    step ≠ .increase2Mode1 ∧ step ≠ .decrease2Mode1 ∧ step ≠ .increase2Mode2 ∧ step ≠ .decrease2Mode2

instance (r : Regs) (unit : Nat) (step : StepValue) : Decidable (EndPointer r unit step) := by
  unfold EndPointer; infer_instance

/-- The value `RnAndModify` leaves in `r[unit]`. -/
def rnNext (r : Regs) (unit : Nat) (step : StepValue) (dmod : Bool) : U16 :=
  if EndPointer r unit step then 0 else stepAddressPure r unit (r.r.toArray.getD unit 0) step dmod

/-- The machine state with `r[unit]` replaced by `v` and everything else as in `c`
(an out-of-range `unit` leaves the state unchanged). -/
def setRn (c : Core) (unit : Nat) (v : U16) : Core :=
  { c with regs := { c.regs with r := vset c.regs.r unit v } }

private theorem map_setR_run (x : U16) (unit : Nat) (v : U16) (c : Core) :
    ((fun _ => x) <$> setR unit v).run c = .ok (x, setRn c unit v) := rfl

/-- `RnAndModify` returns the OLD register value (the access uses the pre-modified address),
writes `rnNext` to `r[unit]` and changes nothing else in the machine state. -/
theorem rnAndModify_run (unit : Nat) (step : StepValue) (dmod : Bool) (c : Core) :
    (rnAndModify unit step dmod).run c =
      .ok (c.regs.r.toArray.getD unit 0, setRn c unit (rnNext c.regs unit step dmod)) := by
  unfold rnAndModify
  simp only [getRegs]
  simp
  unfold rnNext
  split
  · rename_i h1
    split
    · rename_i h2
      have hE : EndPointer c.regs unit step := by
        unfold EndPointer
        exact ⟨h1, h2.1.1.1, h2.1.1.2, h2.1.2, h2.2⟩
      rw [map_setR_run, if_pos hE]
      rfl
    · rename_i h2
      have hE : ¬ EndPointer c.regs unit step := by
        unfold EndPointer
        intro hE; exact h2 ⟨⟨⟨hE.2.1, hE.2.2.1⟩, hE.2.2.2.1⟩, hE.2.2.2.2⟩
      rw [map_setR_run, if_neg hE]
      simp
  · rename_i h1
    have hE : ¬ EndPointer c.regs unit step := by
      unfold EndPointer
      intro hE; exact h1 hE.1
    rw [map_setR_run, if_neg hE]
    simp


/-! ## frame: nothing but `r[unit]` changes -/

/-- `setRn` touches only the `r` array of the register file: every other component of the machine
state (bus: MIU, memory, peripherals; access and event logs; interrupt bookkeeping) and every other register is as before. -/
theorem setRn_frame (c : Core) (unit : Nat) (v : U16) :
    (setRn c unit v).bus = c.bus ∧ (setRn c unit v).events = c.events ∧ (setRn c unit v).log = c.log ∧
    (setRn c unit v).ipend = c.ipend ∧ (setRn c unit v).vpend = c.vpend ∧ (setRn c unit v).vctx = c.vctx ∧
    (setRn c unit v).vaddr = c.vaddr ∧ (setRn c unit v).idle = c.idle ∧
    (setRn c unit v).regs = { c.regs with r := (setRn c unit v).regs.r } :=
  ⟨rfl, rfl, rfl, rfl, rfl, rfl, rfl, rfl, rfl⟩

/-- The written register holds the new value … -/
theorem setRn_same (c : Core) (unit : Nat) (v : U16) (h : unit < 8) :
    (setRn c unit v).regs.r.toArray.getD unit 0 = v := by
  simp [setRn, vset, h]

/-- … and the other seven address registers keep theirs. -/
theorem setRn_other (c : Core) (unit j : Nat) (v : U16) (h : j ≠ unit) :
    (setRn c unit v).regs.r.toArray.getD j 0 = c.regs.r.toArray.getD j 0 := by
  unfold setRn vset
  by_cases hu : unit < 8
  · simp only [hu, dite_true]
    by_cases hj : j < 8
    · have h' : unit ≠ j := Ne.symm h
      simp [hj, h']
    · simp [hj]
  · simp [hu]

/-- Writing back the value a register already holds is the identity on the machine state. -/
theorem setRn_self (c : Core) (unit : Nat) : setRn c unit (c.regs.r.toArray.getD unit 0) = c := by
  unfold setRn vset
  by_cases hu : unit < 8
  · simp [hu]
  · simp [hu]


/-! ## consequences -/

/-- Outside the end-pointer exception the register is post-modified by `StepAddress`. -/
theorem rnNext_normal (r : Regs) (unit : Nat) (step : StepValue) (dmod : Bool) (h : ¬ EndPointer r unit step) :
    rnNext r unit step dmod = stepAddressPure r unit (r.r.toArray.getD unit 0) step dmod := by
  unfold rnNext; rw [if_neg h]

/-- In the end-pointer exception (r3 with `epi`, r7 with `epj`, step kind not ±2) the register is
zeroed, whatever the step — also for a zero step. -/
theorem rnNext_endPointer (r : Regs) (unit : Nat) (step : StepValue) (dmod : Bool) (h : EndPointer r unit step) :
    rnNext r unit step dmod = 0 := by
  unfold rnNext; rw [if_pos h]

/-- **A zero step never changes the register** (nor anything else) — unless the end-pointer mode
applies to it. -/
theorem zero_step_unchanged (unit : Nat) (dmod : Bool) (c : Core) (h : ¬ EndPointer c.regs unit .zero) :
    (rnAndModify unit .zero dmod).run c = .ok (c.regs.r.toArray.getD unit 0, c) := by
  rw [rnAndModify_run, rnNext_normal _ _ _ _ h, step_zero, setRn_self]

/-- The excluded point of `zero_step_unchanged`: in end-pointer mode a zero step clears the register. -/
theorem zero_step_endPointer (unit : Nat) (dmod : Bool) (c : Core) (h : EndPointer c.regs unit .zero) :
    (rnAndModify unit .zero dmod).run c = .ok (c.regs.r.toArray.getD unit 0, setRn c unit 0) := by
  rw [rnAndModify_run, rnNext_endPointer _ _ _ _ h]

/-- **Bit-reversed access.**  With bit reversal enabled and modulo off for the register, the
memory address of a post-modified access is the 16-bit bit reversal of the (old) register value
while the register itself steps linearly by the selected amount (or is zeroed in end-pointer
mode). -/
theorem rnAddressAndModify_brv (unit : Nat) (step : StepValue) (dmod : Bool) (c : Core)
    (hbr : brOf c.regs unit ≠ 0) (hm : mOf c.regs unit = 0) :
    (rnAddressAndModify unit step dmod).run c =
      .ok (Alu.bitReverse (c.regs.r.toArray.getD unit 0),
           setRn c unit (if EndPointer c.regs unit step then 0
                         else c.regs.r.toArray.getD unit 0 + (stepAmount c.regs unit step).1)) := by
  have hlin : ¬ ModuloOn c.regs unit dmod := fun h => h.2.2 hm
  unfold rnAddressAndModify
  simp only [StateT.run_bind, rnAndModify_run]
  have hbr' : brOf (setRn c unit (rnNext c.regs unit step dmod)).regs unit ≠ 0 := hbr
  have hm' : mOf (setRn c unit (rnNext c.regs unit step dmod)).regs unit = 0 := hm
  show (rnAddress unit _).run _ = _
  rw [rnAddress_brv, if_pos ⟨hbr', hm'⟩]
  unfold rnNext
  rw [step_linear _ _ _ _ _ hlin]

/-- Without bit reversal (or with modulo on) the access address is the old register value itself. -/
theorem rnAddressAndModify_plain (unit : Nat) (step : StepValue) (dmod : Bool) (c : Core)
    (h : ¬ (brOf c.regs unit ≠ 0 ∧ mOf c.regs unit = 0)) :
    (rnAddressAndModify unit step dmod).run c =
      .ok (c.regs.r.toArray.getD unit 0, setRn c unit (rnNext c.regs unit step dmod)) := by
  unfold rnAddressAndModify
  simp only [StateT.run_bind, rnAndModify_run]
  have h' : ¬ (brOf (setRn c unit (rnNext c.regs unit step dmod)).regs unit ≠ 0 ∧
      mOf (setRn c unit (rnNext c.regs unit step dmod)).regs unit = 0) := h
  show (rnAddress unit _).run _ = _
  rw [rnAddress_brv, if_neg h']

end Teakra.Interp
