import Proofs.C10.Mod
/-!
# C10, part 3 — stepping by ±1 walks cyclically through the aligned buffer
-/
namespace Teakra.Interp

/-! ## one step by ±1 -/

/-- **Teak mode, +1.**  Inside the buffer a step by +1 advances the address, and from the last
element `base + mod` wraps to `base`. -/
theorem modStepNew_inc (mod a : U16) (hm : mod ≠ 0) (hin : InBuf mod a) :
    modStepNew mod 1 a = wrapInc mod a := by
  obtain ⟨h1, h2, h3, h4⟩ := log2p1_spec mod hm
  apply BitVec.eq_of_toNat_eq
  rw [modStepNew_toNat mod 1 a _ rfl, wrapInc_toNat mod a _ rfl]
  rw [inBuf_iff mod a _ rfl] at hin
  have hl := a.isLt
  have e1 : (1 : U16).toNat = 1 := rfl
  rw [e1]
  generalize log2p1 mod = k at *
  generalize a.toNat = A at *
  generalize mod.toNat = M at *
  interval_cases k <;> simp only [Nat.reducePow, Nat.reduceSub] at * <;> split_ifs <;> omega


/-- **Teak mode, −1.**  Inside the buffer a step by −1 moves the address back, and from `base`
wraps to the last element `base + mod`. -/
theorem modStepNew_dec (mod a : U16) (hm : mod ≠ 0) (hin : InBuf mod a) :
    modStepNew mod 0xFFFF a = wrapDec mod a := by
  obtain ⟨h1, h2, h3, h4⟩ := log2p1_spec mod hm
  apply BitVec.eq_of_toNat_eq
  rw [modStepNew_toNat mod 0xFFFF a _ rfl, wrapDec_toNat mod a _ rfl]
  rw [inBuf_iff mod a _ rfl] at hin
  have hl := a.isLt
  have e1 : (0xFFFF : U16).toNat = 65535 := rfl
  rw [e1]
  generalize log2p1 mod = k at *
  generalize a.toNat = A at *
  generalize mod.toNat = M at *
  interval_cases k <;> simp only [Nat.reducePow, Nat.reduceSub] at * <;> split_ifs <;> omega

/-- **TeakLite mode, +1.** -/
theorem modStepLegacy_inc (mod a : U16) (hm : mod ≠ 0) (hin : InBuf mod a) :
    modStepLegacy mod 1 a false = wrapInc mod a := by
  obtain ⟨h1, h2, h3, h4⟩ := log2p1_spec mod hm
  apply BitVec.eq_of_toNat_eq
  have hk : log2p1 (if ((1 : U16) >>> 15) != 0 then mod ||| ~~~(1 : U16) else mod ||| 1) = log2p1 mod := by
    have : ((1 : U16) >>> 15 != 0) = false := by decide
    rw [this]; exact log2p1_or_one mod hm
  rw [modStepLegacy_toNat mod 1 a false _ hk, wrapInc_toNat mod a _ rfl]
  rw [inBuf_iff mod a _ rfl] at hin
  have hl := a.isLt
  have e1 : (1 : U16).toNat = 1 := rfl
  rw [e1]
  simp only [true_or, and_true]
  generalize log2p1 mod = k at *
  generalize a.toNat = A at *
  generalize mod.toNat = M at *
  interval_cases k <;> simp only [Nat.reducePow, Nat.reduceSub] at * <;> split_ifs <;> omega

/-- **TeakLite mode, −1.** -/
theorem modStepLegacy_dec (mod a : U16) (hm : mod ≠ 0) (hin : InBuf mod a) :
    modStepLegacy mod 0xFFFF a false = wrapDec mod a := by
  obtain ⟨h1, h2, h3, h4⟩ := log2p1_spec mod hm
  apply BitVec.eq_of_toNat_eq
  have hk : log2p1 (if ((0xFFFF : U16) >>> 15) != 0 then mod ||| ~~~(0xFFFF : U16) else mod ||| 0xFFFF) =
      log2p1 mod := by
    have h1 : ((0xFFFF : U16) >>> 15 != 0) = true := by decide
    have h2 : ~~~(0xFFFF : U16) = 0#16 := by decide
    rw [h1, if_pos rfl, h2, BitVec.or_zero]
  rw [modStepLegacy_toNat mod 0xFFFF a false _ hk, wrapDec_toNat mod a _ rfl]
  rw [inBuf_iff mod a _ rfl] at hin
  have hl := a.isLt
  have e1 : (0xFFFF : U16).toNat = 65535 := rfl
  rw [e1]
  simp only [true_or, and_true]
  generalize log2p1 mod = k at *
  generalize a.toNat = A at *
  generalize mod.toNat = M at *
  interval_cases k <;> simp only [Nat.reducePow, Nat.reduceSub] at * <;> split_ifs <;> omega

end Teakra.Interp
