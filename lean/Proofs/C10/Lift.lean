import Proofs.C10.Wrap
import Proofs.C10.Cyclic
import Proofs.C10.Step
/-!
# C10, part 7 — the modulo theorems lifted to `stepAddressPure` (both compatibility modes)
-/
namespace Teakra.Interp

/-! ## the one-step functions: buffer invariance and period -/

theorem repeat_congr {α : Type} (f g : α → α) (P : α → Prop) (hP : ∀ x, P x → P (g x))
    (hfg : ∀ x, P x → f x = g x) (n : Nat) (a : α) (ha : P a) :
    Nat.repeat f n a = Nat.repeat g n a ∧ P (Nat.repeat g n a) := by
  induction n with
  | zero => exact ⟨rfl, ha⟩
  | succ n ih =>
    simp only [Nat.repeat]
    rw [ih.1, hfg _ ih.2]
    exact ⟨rfl, hP _ ih.2⟩


/-- Teak mode: ±1 keep an in-buffer address in the buffer, high bits untouched. -/
theorem modStepNew_stays (mod a : U16) (hm : mod ≠ 0) (hin : InBuf mod a) :
    (modStepNew mod 1 a &&& ~~~lowMask mod = a &&& ~~~lowMask mod ∧ InBuf mod (modStepNew mod 1 a)) ∧
    (modStepNew mod 0xFFFF a &&& ~~~lowMask mod = a &&& ~~~lowMask mod ∧ InBuf mod (modStepNew mod 0xFFFF a)) := by
  rw [modStepNew_inc mod a hm hin, modStepNew_dec mod a hm hin]
  exact ⟨wrapInc_stays mod a hm hin, wrapDec_stays mod a hm hin⟩

/-- TeakLite mode: ±1 keep an in-buffer address in the buffer, high bits untouched. -/
theorem modStepLegacy_stays (mod a : U16) (hm : mod ≠ 0) (hin : InBuf mod a) :
    (modStepLegacy mod 1 a false &&& ~~~lowMask mod = a &&& ~~~lowMask mod ∧
      InBuf mod (modStepLegacy mod 1 a false)) ∧
    (modStepLegacy mod 0xFFFF a false &&& ~~~lowMask mod = a &&& ~~~lowMask mod ∧
      InBuf mod (modStepLegacy mod 0xFFFF a false)) := by
  rw [modStepLegacy_inc mod a hm hin, modStepLegacy_dec mod a hm hin]
  exact ⟨wrapInc_stays mod a hm hin, wrapDec_stays mod a hm hin⟩

/-- Teak mode: `mod + 1` steps by +1 (or by −1) return to the start; +1 and −1 are mutually inverse. -/
theorem modStepNew_cyclic (mod a : U16) (hm : mod ≠ 0) (hin : InBuf mod a) :
    Nat.repeat (modStepNew mod 1) (mod.toNat + 1) a = a ∧
    Nat.repeat (modStepNew mod 0xFFFF) (mod.toNat + 1) a = a ∧
    modStepNew mod 0xFFFF (modStepNew mod 1 a) = a ∧ modStepNew mod 1 (modStepNew mod 0xFFFF a) = a := by
  refine ⟨?_, ?_, ?_, ?_⟩
  · rw [(repeat_congr _ (wrapInc mod) (InBuf mod) (fun x hx => (wrapInc_stays _ x hm hx).2)
      (fun x hx => modStepNew_inc mod x hm hx) _ a hin).1]
    exact wrapInc_cyclic mod a hm hin
  · rw [(repeat_congr _ (wrapDec mod) (InBuf mod) (fun x hx => (wrapDec_stays _ x hm hx).2)
      (fun x hx => modStepNew_dec mod x hm hx) _ a hin).1]
    exact wrapDec_cyclic mod a hm hin
  · rw [modStepNew_inc mod a hm hin, modStepNew_dec mod _ hm (wrapInc_stays _ a hm hin).2]
    exact wrapDec_wrapInc mod a hm hin
  · rw [modStepNew_dec mod a hm hin, modStepNew_inc mod _ hm (wrapDec_stays _ a hm hin).2]
    exact wrapInc_wrapDec mod a hm hin

/-- TeakLite mode: the same cyclic structure. -/
theorem modStepLegacy_cyclic (mod a : U16) (hm : mod ≠ 0) (hin : InBuf mod a) :
    Nat.repeat (fun x => modStepLegacy mod 1 x false) (mod.toNat + 1) a = a ∧
    Nat.repeat (fun x => modStepLegacy mod 0xFFFF x false) (mod.toNat + 1) a = a ∧
    modStepLegacy mod 0xFFFF (modStepLegacy mod 1 a false) false = a ∧
    modStepLegacy mod 1 (modStepLegacy mod 0xFFFF a false) false = a := by
  refine ⟨?_, ?_, ?_, ?_⟩
  · rw [(repeat_congr _ (wrapInc mod) (InBuf mod) (fun x hx => (wrapInc_stays _ x hm hx).2)
      (fun x hx => modStepLegacy_inc mod x hm hx) _ a hin).1]
    exact wrapInc_cyclic mod a hm hin
  · rw [(repeat_congr _ (wrapDec mod) (InBuf mod) (fun x hx => (wrapDec_stays _ x hm hx).2)
      (fun x hx => modStepLegacy_dec mod x hm hx) _ a hin).1]
    exact wrapDec_cyclic mod a hm hin
  · rw [modStepLegacy_inc mod a hm hin, modStepLegacy_dec mod _ hm (wrapInc_stays _ a hm hin).2]
    exact wrapDec_wrapInc mod a hm hin
  · rw [modStepLegacy_dec mod a hm hin, modStepLegacy_inc mod _ hm (wrapDec_stays _ a hm hin).2]
    exact wrapInc_wrapDec mod a hm hin

/-! ## lifted to `stepAddressPure` -/

/-- **Modulo +1, both modes.**  With modulo in effect, `mod ≠ 0` and a start address inside the
buffer, `StepAddress(…, Increase)` is the cyclic successor:
`if a &&& mask = mod then a &&& ~~~mask else a + 1`, in Teak and in TeakLite-compatible mode. -/
theorem mod_inc (r : Regs) (unit : Nat) (a : U16) (dmod : Bool) (h : ModuloOn r unit dmod)
    (hm : modOf r unit ≠ 0) (hin : InBuf (modOf r unit) a) :
    stepAddressPure r unit a .increase dmod = wrapInc (modOf r unit) a := by
  rw [inc_mod_aux r unit a dmod h hm]
  split
  · exact modStepNew_inc _ _ hm hin
  · exact modStepLegacy_inc _ _ hm hin

/-- **Modulo −1, both modes.**  `StepAddress(…, Decrease)` is the cyclic predecessor:
`if a &&& mask = 0 then (a &&& ~~~mask) ||| mod else a - 1`. -/
theorem mod_dec (r : Regs) (unit : Nat) (a : U16) (dmod : Bool) (h : ModuloOn r unit dmod)
    (hm : modOf r unit ≠ 0) (hin : InBuf (modOf r unit) a) :
    stepAddressPure r unit a .decrease dmod = wrapDec (modOf r unit) a := by
  rw [dec_mod_aux r unit a dmod h hm]
  split
  · exact modStepNew_dec _ _ hm hin
  · exact modStepLegacy_dec _ _ hm hin

/-- **Bits above the alignment never change** (every step kind, every address), relative to the
mask the step actually uses (`stepMask`). -/
theorem mod_high_bits (r : Regs) (unit : Nat) (a : U16) (step : StepValue) (dmod : Bool)
    (h : ModuloOn r unit dmod) (hal : stepMask r unit step = lowMask (modOf r unit)) :
    stepAddressPure r unit a step dmod &&& ~~~lowMask (modOf r unit) = a &&& ~~~lowMask (modOf r unit) := by
  rw [← hal]; exact step_high_bits r unit a step dmod h

/-- ±1 never alter the bits above the buffer's alignment — any address, both modes. -/
theorem mod_high_bits_unit (r : Regs) (unit : Nat) (a : U16) (step : StepValue) (dmod : Bool)
    (h : ModuloOn r unit dmod) (hm : modOf r unit ≠ 0) (hs : step = .increase ∨ step = .decrease) :
    stepAddressPure r unit a step dmod &&& ~~~lowMask (modOf r unit) = a &&& ~~~lowMask (modOf r unit) := by
  apply mod_high_bits r unit a step dmod h
  rcases hs with hs | hs <;> subst hs
  · exact stepMask_increase r unit hm
  · exact stepMask_decrease r unit

/-- ±1 keep an in-buffer address inside `[base, base + mod]`. -/
theorem mod_stays_in_buffer (r : Regs) (unit : Nat) (a : U16) (step : StepValue) (dmod : Bool)
    (h : ModuloOn r unit dmod) (hm : modOf r unit ≠ 0) (hin : InBuf (modOf r unit) a)
    (hs : step = .increase ∨ step = .decrease) :
    stepAddressPure r unit a step dmod &&& ~~~lowMask (modOf r unit) = a &&& ~~~lowMask (modOf r unit) ∧
    InBuf (modOf r unit) (stepAddressPure r unit a step dmod) := by
  rcases hs with hs | hs <;> subst hs
  · rw [mod_inc r unit a dmod h hm hin]; exact wrapInc_stays _ _ hm hin
  · rw [mod_dec r unit a dmod h hm hin]; exact wrapDec_stays _ _ hm hin

/-- **Cyclic walk.**  From any address inside the buffer, `mod + 1` increments return to it. -/
theorem mod_cyclic (r : Regs) (unit : Nat) (a : U16) (dmod : Bool) (h : ModuloOn r unit dmod)
    (hm : modOf r unit ≠ 0) (hin : InBuf (modOf r unit) a) :
    Nat.repeat (fun x => stepAddressPure r unit x .increase dmod) ((modOf r unit).toNat + 1) a = a := by
  rw [(repeat_congr _ (wrapInc (modOf r unit)) (InBuf (modOf r unit))
    (fun x hx => (wrapInc_stays _ x hm hx).2) (fun x hx => mod_inc r unit x dmod h hm hx) _ a hin).1]
  exact wrapInc_cyclic _ a hm hin

/-- `mod + 1` decrements also return to the start. -/
theorem mod_cyclic_dec (r : Regs) (unit : Nat) (a : U16) (dmod : Bool) (h : ModuloOn r unit dmod)
    (hm : modOf r unit ≠ 0) (hin : InBuf (modOf r unit) a) :
    Nat.repeat (fun x => stepAddressPure r unit x .decrease dmod) ((modOf r unit).toNat + 1) a = a := by
  rw [(repeat_congr _ (wrapDec (modOf r unit)) (InBuf (modOf r unit))
    (fun x hx => (wrapDec_stays _ x hm hx).2) (fun x hx => mod_dec r unit x dmod h hm hx) _ a hin).1]
  exact wrapDec_cyclic _ a hm hin

/-- Increment and decrement are mutually inverse on the buffer (including across the wrap). -/
theorem mod_inc_dec_inverse (r : Regs) (unit : Nat) (a : U16) (dmod : Bool) (h : ModuloOn r unit dmod)
    (hm : modOf r unit ≠ 0) (hin : InBuf (modOf r unit) a) :
    stepAddressPure r unit (stepAddressPure r unit a .increase dmod) .decrease dmod = a ∧
    stepAddressPure r unit (stepAddressPure r unit a .decrease dmod) .increase dmod = a := by
  constructor
  · rw [mod_inc r unit a dmod h hm hin, mod_dec r unit _ dmod h hm (wrapInc_stays _ a hm hin).2]
    exact wrapDec_wrapInc _ a hm hin
  · rw [mod_dec r unit a dmod h hm hin, mod_inc r unit _ dmod h hm (wrapDec_stays _ a hm hin).2]
    exact wrapInc_wrapDec _ a hm hin

/-! ## the one place where the strongest reading fails -/

/-- The strongest reading of "never alters address bits above the buffer's power-of-two alignment":
for EVERY step kind.  It is false: in the TeakLite-compatible branch the mask is derived from
`mod ||| s`, so a step by 2 with `mod = 1` uses a 2-bit mask on a 1-bit-aligned buffer. -/
def HighBitsAlways : Prop :=
  ∀ (r : Regs) (unit : Nat) (a : U16) (step : StepValue) (dmod : Bool),
    ModuloOn r unit dmod → modOf r unit ≠ 0 →
    stepAddressPure r unit a step dmod &&& ~~~lowMask (modOf r unit) = a &&& ~~~lowMask (modOf r unit)

/-- Witness on the one-step function: `mod = 1`, step 2 from address 0 lands on 2, outside `[0, 1]`. -/
theorem modStepLegacy_step2_mod1 : modStepLegacy 1 2 0 false = 2 := by decide

/-- The excluded point: TeakLite mode (`cmd = 1`), `modi = 1`, r0 with modulo on, step kind
`increase2Mode1`, address 0 ↦ 2 (bit 1 is above the 1-bit alignment of the buffer `[0, 1]`). -/
theorem not_highBitsAlways : ¬ HighBitsAlways := by
  intro h
  have := h { cmd := 1, modi := 1, m := #v[1, 0, 0, 0, 0, 0, 0, 0] } 0 0 .increase2Mode1 false
    (by decide) (by decide)
  revert this
  decide

/-- `HighBitsAlways` restricted to the steps whose mask is the buffer mask (`mod_high_bits`): this
covers ±1 in both modes, every kind but "step 2 mode 2" in Teak mode, and the ±2 kinds when
`mod ≥ 2`. -/
theorem highBitsAlways_partial (r : Regs) (unit : Nat) (a : U16) (step : StepValue) (dmod : Bool)
    (h : ModuloOn r unit dmod) (hm : modOf r unit ≠ 0)
    (hs : step = .increase ∨ step = .decrease ∨
      (r.cmd = 0 ∧ step ≠ .increase2Mode2 ∧ step ≠ .decrease2Mode2) ∨
      (2 ≤ (modOf r unit).toNat ∧ (step = .increase2Mode1 ∨ step = .decrease2Mode1 ∨
        step = .increase2Mode2 ∨ step = .decrease2Mode2))) :
    stepAddressPure r unit a step dmod &&& ~~~lowMask (modOf r unit) = a &&& ~~~lowMask (modOf r unit) := by
  apply mod_high_bits r unit a step dmod h
  rcases hs with hs | hs | ⟨hc, h1, h2⟩ | ⟨h2, hs⟩
  · subst hs; exact stepMask_increase r unit hm
  · subst hs; exact stepMask_decrease r unit
  · exact stepMask_teak r unit step hc h1 h2
  · exact stepMask_two r unit step h2 hs

end Teakra.Interp
