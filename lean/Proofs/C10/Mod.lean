import Proofs.C10.Basic
import Mathlib.Tactic.SplitIfs
/-!
# C10, part 2 — one modulo step (`modStepNew`, `modStepLegacy`)
-/
namespace Teakra.Interp

theorem toNat_lt_two_pow_log2p1 (v : U16) : v.toNat < 2 ^ log2p1 v := by
  by_cases hv : v = 0
  · subst hv; decide
  · exact (log2p1_spec v hv).2.1

/-- The mask the TeakLite-compatible branch derives from `mod` and the step. -/
def legacyMask (mod s : U16) : U16 :=
  lowMask (if (s >>> 15) != 0 then mod ||| ~~~s else mod ||| s)

/-- Exact arithmetic reading of one Teak-mode modulo step. -/
theorem modStepNew_toNat (mod s a : U16) (k : Nat) (hkk : log2p1 mod = k) :
    (modStepNew mod s a).toNat = a.toNat - a.toNat % 2 ^ k +
      (if s.toNat < 0x8000 then
        (if (a.toNat + s.toNat) % 2 ^ k = (mod.toNat + 1) % 2 ^ k then 0
         else (a.toNat + s.toNat) % 2 ^ k)
       else ((if a.toNat % 2 ^ k = 0 then mod.toNat + 1 else a.toNat % 2 ^ k)
              + s.toNat) % 2 ^ k) := by
  have hk : k ≤ 16 := hkk ▸ log2p1_le mod
  have hd : ∀ x : Nat, x % 65536 % 2 ^ k = x % 2 ^ k := fun x =>
    Nat.mod_mod_of_dvd x (Nat.pow_dvd_pow 2 hk : 2 ^ k ∣ 2 ^ 16)
  have hd2 : ∀ x y : Nat, (x % 65536 + y) % 2 ^ k = (x + y) % 2 ^ k := fun x y => by
    rw [Nat.add_mod, hd, ← Nat.add_mod]
  unfold modStepNew
  simp only [lowMask_eq, hkk]
  have hP : 0 < 2 ^ k := Nat.two_pow_pos k
  split
  · split
    · rename_i h
      have h' := congrArg BitVec.toNat (eq_of_beq h)
      rw [and_maskK_toNat _ k hk, and_maskK_toNat _ k hk, BitVec.toNat_add, BitVec.toNat_add] at h'
      rw [join_toNat a 0 k hk (by simp)]
      simp only [Nat.reducePow] at h'
      have h1 : (1 : U16).toNat = 1 := rfl
      rw [h1, hd, hd] at h'
      rw [if_pos h']; rfl
    · rename_i h
      have h' : ¬ ((a + s &&& maskK k).toNat = (mod + 1 &&& maskK k).toNat) := by
        intro e; exact h (by rw [BitVec.eq_of_toNat_eq e]; simp)
      rw [and_maskK_toNat _ k hk, and_maskK_toNat _ k hk, BitVec.toNat_add, BitVec.toNat_add] at h'
      simp only [Nat.reducePow] at h'
      have h1 : (1 : U16).toNat = 1 := rfl
      rw [h1, hd, hd] at h'
      rw [join_toNat a _ k hk (by rw [and_maskK_toNat _ k hk]; exact Nat.mod_lt _ hP), if_neg h',
        and_maskK_toNat _ k hk, BitVec.toNat_add]
      simp only [Nat.reducePow, hd]
  · rw [join_toNat a _ k hk (by rw [and_maskK_toNat _ k hk]; exact Nat.mod_lt _ hP), and_maskK_toNat _ k hk,
      BitVec.toNat_add]
    simp only [Nat.reducePow, hd]
    split
    · rename_i h
      have h' := congrArg BitVec.toNat (eq_of_beq h)
      rw [and_maskK_toNat _ k hk] at h'
      have h'' : a.toNat % 2 ^ k = 0 := h'
      rw [if_pos h'', BitVec.toNat_add]
      have h1 : (1 : U16).toNat = 1 := rfl
      simp only [Nat.reducePow, h1, hd2]
    · rename_i h
      have h' : ¬ ((a &&& maskK k).toNat = (0 : U16).toNat) := by
        intro e; exact h (by rw [BitVec.eq_of_toNat_eq e]; simp)
      rw [and_maskK_toNat _ k hk] at h'
      have h'' : ¬ a.toNat % 2 ^ k = 0 := h'
      rw [if_neg h'', and_maskK_toNat _ k hk]


theorem neg_iff (s : U16) : ((s >>> 15) != 0) = true ↔ 0x8000 ≤ s.toNat := by
  rw [bne_iff_ne, Ne, ← BitVec.toNat_inj, BitVec.toNat_ushiftRight, Nat.shiftRight_eq_div_pow]
  have := s.isLt
  have h0 : (0 : U16).toNat = 0 := rfl
  rw [h0]
  omega

/-- Exact arithmetic reading of one TeakLite-mode modulo step (`k` is the width of the mask that
branch derives from `mod ||| s` resp. `mod ||| ~~~s`). -/
theorem modStepLegacy_toNat (mod s a : U16) (f : Bool) (k : Nat)
    (hkk : log2p1 (if (s >>> 15) != 0 then mod ||| ~~~s else mod ||| s) = k) :
    (modStepLegacy mod s a f).toNat = a.toNat - a.toNat % 2 ^ k +
      (if s.toNat < 0x8000 then
        (if a.toNat % 2 ^ k = mod.toNat ∧ (f = false ∨ mod.toNat ≠ 2 ^ k - 1) then 0
         else (a.toNat + s.toNat) % 2 ^ k)
       else
        (if a.toNat % 2 ^ k = 0 ∧ (f = false ∨ mod.toNat ≠ 2 ^ k - 1) then mod.toNat
         else (a.toNat + s.toNat) % 2 ^ k)) := by
  have hk : k ≤ 16 := hkk ▸ log2p1_le _
  have hd : ∀ x : Nat, x % 65536 % 2 ^ k = x % 2 ^ k := fun x =>
    Nat.mod_mod_of_dvd x (Nat.pow_dvd_pow 2 hk : 2 ^ k ∣ 2 ^ 16)
  have hmod : mod.toNat < 2 ^ k := by
    have h1 := toNat_lt_two_pow_log2p1 (if (s >>> 15) != 0 then mod ||| ~~~s else mod ||| s)
    rw [hkk] at h1
    refine Nat.lt_of_le_of_lt ?_ h1
    split <;> rw [BitVec.toNat_or] <;> exact Nat.left_le_or
  have hP : 0 < 2 ^ k := Nat.two_pow_pos k
  have h0 : (0 : U16).toNat = 0 := rfl
  unfold modStepLegacy
  simp only [lowMask_eq, hkk]
  by_cases hn : ((s >>> 15) != 0) = true
  · have hn' : ¬ s.toNat < 0x8000 := by have := (neg_iff s).1 hn; omega
    rw [if_neg hn']
    simp only [hn, Bool.not_true, Bool.false_eq_true, if_false]
    split
    · rename_i h
      simp only [Bool.and_eq_true, beq_iff_eq, Bool.or_eq_true, Bool.not_eq_true', bne_iff_ne, ne_eq] at h
      rw [← BitVec.toNat_inj, ← BitVec.toNat_inj (x := mod), and_maskK_toNat _ k hk, maskK_toNat k hk, h0] at h
      rw [if_pos h, join_toNat a _ k hk hmod]
    · rename_i h
      simp only [Bool.and_eq_true, beq_iff_eq, Bool.or_eq_true, Bool.not_eq_true', bne_iff_ne, ne_eq] at h
      rw [← BitVec.toNat_inj, ← BitVec.toNat_inj (x := mod), and_maskK_toNat _ k hk, maskK_toNat k hk, h0] at h
      rw [if_neg h, join_toNat a _ k hk (by rw [and_maskK_toNat _ k hk]; exact Nat.mod_lt _ hP),
        and_maskK_toNat _ k hk, BitVec.toNat_add]
      simp only [Nat.reducePow, hd]
  · have hn' : s.toNat < 0x8000 := by
      have := (neg_iff s).not.1 hn; omega
    rw [if_pos hn']
    simp only [hn, Bool.not_false, if_true]
    split
    · rename_i h
      simp only [Bool.and_eq_true, beq_iff_eq, Bool.or_eq_true, Bool.not_eq_true', bne_iff_ne, ne_eq] at h
      rw [← BitVec.toNat_inj, ← BitVec.toNat_inj (x := mod), and_maskK_toNat _ k hk, maskK_toNat k hk] at h
      rw [if_pos h, join_toNat a _ k hk (by simp)]; rfl
    · rename_i h
      simp only [Bool.and_eq_true, beq_iff_eq, Bool.or_eq_true, Bool.not_eq_true', bne_iff_ne, ne_eq] at h
      rw [← BitVec.toNat_inj, ← BitVec.toNat_inj (x := mod), and_maskK_toNat _ k hk, maskK_toNat k hk] at h
      rw [if_neg h, join_toNat a _ k hk (by rw [and_maskK_toNat _ k hk]; exact Nat.mod_lt _ hP),
        and_maskK_toNat _ k hk, BitVec.toNat_add]
      simp only [Nat.reducePow, hd]

/-! ## the buffer, its cyclic successor and predecessor -/

/-- `a` lies inside the buffer `[base, base + mod]` whose base is `a` with the low
`log2p1 mod` bits cleared. -/
def InBuf (mod a : U16) : Prop := (a &&& lowMask mod).toNat ≤ mod.toNat

instance (mod a : U16) : Decidable (InBuf mod a) := by unfold InBuf; infer_instance

/-- The cyclic successor inside the buffer. -/
def wrapInc (mod a : U16) : U16 :=
  if a &&& lowMask mod = mod then a &&& ~~~lowMask mod else a + 1

/-- The cyclic predecessor inside the buffer. -/
def wrapDec (mod a : U16) : U16 :=
  if a &&& lowMask mod = 0 then (a &&& ~~~lowMask mod) ||| mod else a - 1

theorem wrapInc_toNat (mod a : U16) (k : Nat) (hkk : log2p1 mod = k) :
    (wrapInc mod a).toNat = if a.toNat % 2 ^ k = mod.toNat then a.toNat - a.toNat % 2 ^ k
      else (a.toNat + 1) % 65536 := by
  have hk : k ≤ 16 := hkk ▸ log2p1_le _
  unfold wrapInc
  simp only [lowMask_eq, hkk]
  have hiff : a &&& maskK k = mod ↔ a.toNat % 2 ^ k = mod.toNat := by
    rw [← BitVec.toNat_inj, and_maskK_toNat _ k hk]
  by_cases h : a &&& maskK k = mod
  · rw [if_pos h, if_pos (hiff.1 h)]; exact and_not_maskK_toNat a k hk
  · rw [if_neg h, if_neg (hiff.not.1 h), BitVec.toNat_add]; rfl

theorem wrapDec_toNat (mod a : U16) (k : Nat) (hkk : log2p1 mod = k) :
    (wrapDec mod a).toNat = if a.toNat % 2 ^ k = 0 then a.toNat - a.toNat % 2 ^ k + mod.toNat
      else (a.toNat + 65535) % 65536 := by
  have hk : k ≤ 16 := hkk ▸ log2p1_le _
  have hmod : mod.toNat < 2 ^ k := hkk ▸ toNat_lt_two_pow_log2p1 mod
  unfold wrapDec
  simp only [lowMask_eq, hkk]
  have hiff : a &&& maskK k = 0 ↔ a.toNat % 2 ^ k = 0 := by
    rw [← BitVec.toNat_inj, and_maskK_toNat _ k hk]; rfl
  by_cases h : a &&& maskK k = 0
  · rw [if_pos h, if_pos (hiff.1 h)]; exact join_toNat a mod k hk hmod
  · rw [if_neg h, if_neg (hiff.not.1 h), BitVec.toNat_sub]
    have h1 : (1 : U16).toNat = 1 := rfl
    rw [h1]; omega

theorem inBuf_iff (mod a : U16) (k : Nat) (hkk : log2p1 mod = k) :
    InBuf mod a ↔ a.toNat % 2 ^ k ≤ mod.toNat := by
  have hk : k ≤ 16 := hkk ▸ log2p1_le _
  unfold InBuf
  rw [lowMask_eq, hkk, and_maskK_toNat _ k hk]

/-- Common arithmetic set-up: width `k` of the mask of a non-zero `mod`. -/
theorem mod_bracket (mod : U16) (hm : mod ≠ 0) (k : Nat) (hkk : log2p1 mod = k) :
    2 ^ (k - 1) ≤ mod.toNat ∧ mod.toNat < 2 ^ k ∧ 1 ≤ k ∧ k ≤ 16 := hkk ▸ log2p1_spec mod hm

/-! ## the TeakLite-branch mask for steps ±1 is the buffer mask -/

theorem log2p1_or_small (mod x : U16) (hm : mod ≠ 0) (hx : x.toNat < 2 ^ log2p1 mod) :
    log2p1 (mod ||| x) = log2p1 mod := by
  obtain ⟨h1, h2, h3, h4⟩ := log2p1_spec mod hm
  apply log2p1_unique _ _ h3
  · rw [BitVec.toNat_or]; exact Nat.le_trans h1 Nat.left_le_or
  · rw [BitVec.toNat_or]
    exact Nat.or_lt_two_pow h2 hx

theorem log2p1_or_one (mod : U16) (hm : mod ≠ 0) : log2p1 (mod ||| 1) = log2p1 mod := by
  apply log2p1_or_small mod 1 hm
  have h3 := (log2p1_spec mod hm).2.2.1
  have : (1 : U16).toNat = 2 ^ 0 := rfl
  rw [this]
  exact Nat.pow_lt_pow_right (by decide) (by omega)

/-- For a step of +1 the TeakLite branch uses the mask of `mod` itself. -/
theorem legacyMask_one (mod : U16) (hm : mod ≠ 0) : legacyMask mod 1 = lowMask mod := by
  unfold legacyMask
  have : ((1 : U16) >>> 15 != 0) = false := by decide
  rw [this]
  simp only [Bool.false_eq_true, if_false]
  rw [lowMask_eq, lowMask_eq, log2p1_or_one mod hm]

/-- For a step of −1 the TeakLite branch uses the mask of `mod` itself. -/
theorem legacyMask_neg_one (mod : U16) : legacyMask mod 0xFFFF = lowMask mod := by
  unfold legacyMask
  have h1 : ((0xFFFF : U16) >>> 15 != 0) = true := by decide
  have h2 : ~~~(0xFFFF : U16) = 0#16 := by decide
  rw [h1, if_pos rfl, h2, BitVec.or_zero]

end Teakra.Interp
