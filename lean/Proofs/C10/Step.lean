import Proofs.C10.Mod
import Mathlib.Tactic.SplitIfs
/-!
# C10, part 5 — `stepAmount` / `stepAddressPure`: zero step, linear stepping, high bits
-/
namespace Teakra.Interp

/-- `regs.m[unit]` -/
def mOf (r : Regs) (unit : Nat) : U16 := r.m.toArray.getD unit 0
/-- `regs.br[unit]` -/
def brOf (r : Regs) (unit : Nat) : U16 := r.br.toArray.getD unit 0
/-- The modulo register of the unit's bank: `modi` for r0..r3, `modj` for r4..r7. -/
def modOf (r : Regs) (unit : Nat) : U16 := if unit < 4 then r.modi else r.modj

/-- Modulo addressing is in effect for this access: not disabled by the instruction (`dmod`),
bit reversal off, modulo enabled for the register. -/
def ModuloOn (r : Regs) (unit : Nat) (dmod : Bool) : Prop :=
  dmod = false ∧ brOf r unit = 0 ∧ mOf r unit ≠ 0

instance (r : Regs) (unit : Nat) (dmod : Bool) : Decidable (ModuloOn r unit dmod) := by
  unfold ModuloOn; infer_instance

theorem step_linear (r : Regs) (unit : Nat) (a : U16) (step : StepValue) (dmod : Bool)
    (h : ¬ ModuloOn r unit dmod) :
    stepAddressPure r unit a step dmod = a + (stepAmount r unit step).1 := by
  unfold stepAddressPure
  generalize stepAmount r unit step = t
  obtain ⟨s, m1, m2⟩ := t
  simp only []
  split
  · rename_i h0
    rw [eq_of_beq h0]; exact (BitVec.add_zero a).symm
  · have hc : (!dmod && r.br.toArray.getD unit 0 == 0 && r.m.toArray.getD unit 0 != 0) = false := by
      rw [Bool.eq_false_iff]
      intro hc
      apply h
      simp only [Bool.and_eq_true, Bool.not_eq_true', beq_iff_eq, bne_iff_ne, ne_eq] at hc
      exact ⟨hc.1.1, hc.1.2, hc.2⟩
    rw [hc]; exact if_neg Bool.false_ne_true


/-! ## zero step -/

theorem step_zero (r : Regs) (unit : Nat) (a : U16) (dmod : Bool) :
    stepAddressPure r unit a .zero dmod = a := by
  unfold stepAddressPure
  simp [stepAmount]

theorem step_zero_amount (r : Regs) (unit : Nat) (a : U16) (step : StepValue) (dmod : Bool)
    (h : (stepAmount r unit step).1 = 0) : stepAddressPure r unit a step dmod = a := by
  unfold stepAddressPure
  generalize stepAmount r unit step = t at *
  obtain ⟨s, m1, m2⟩ := t
  simp only [] at h ⊢
  subst h
  simp

/-! ## the configured step -/

/-- What `StepAddress` adds for `PlusStep`: with `stp16 = 1` in Teak mode the 16-bit step register
(`stepi0`/`stepj0`; sign-extended from 9 bits when modulo is enabled for the register); otherwise
the 16-bit step register when the register is in bit-reversal mode without modulo; otherwise the
7-bit step (`stepi`/`stepj`) sign-extended. -/
def plusStepAmount (r : Regs) (unit : Nat) : U16 :=
  let step7 := if unit < 4 then r.stepi else r.stepj
  let step16 := if unit < 4 then r.stepi0 else r.stepj0
  if r.stp16 = 1 ∧ r.cmd = 0 then (if mOf r unit ≠ 0 then Alu.signExtend16 9 step16 else step16)
  else if brOf r unit ≠ 0 ∧ mOf r unit = 0 then step16
  else Alu.signExtend16 7 step7

theorem stepAmount_plusStep (r : Regs) (unit : Nat) :
    stepAmount r unit .plusStep = (plusStepAmount r unit, false, false) := by
  unfold plusStepAmount mOf brOf
  simp only [stepAmount]
  generalize r.br.toArray.getD unit 0 = brU at *
  generalize r.m.toArray.getD unit 0 = mU at *
  by_cases h1 : r.stp16 = 1 <;> by_cases h2 : r.cmd = 0 <;> by_cases h3 : mU = 0 <;> by_cases h4 : brU = 0 <;>
    simp_all

/-- `signExtend16 n` reads the low `n` bits as a two's-complement number. -/
theorem signExtend16_toInt (n : Nat) (v : U16) (_h1 : 0 < n) (h2 : n ≤ 16) :
    (Alu.signExtend16 n v).toInt =
      if 2 * (v.toNat % 2 ^ n) < 2 ^ n then ((v.toNat % 2 ^ n : Nat) : Int)
      else ((v.toNat % 2 ^ n : Nat) : Int) - 2 ^ n := by
  unfold Alu.signExtend16
  rw [BitVec.toInt_signExtend_of_le h2, BitVec.toInt_eq_toNat_cond, BitVec.toNat_setWidth]
  split <;> simp

/-! ## linear stepping, by step kind -/

theorem stepAmount_increase (r : Regs) (unit : Nat) : stepAmount r unit .increase = (1, false, false) := rfl
theorem stepAmount_decrease (r : Regs) (unit : Nat) : stepAmount r unit .decrease = (0xFFFF, false, false) := rfl
theorem stepAmount_increase2Mode1 (r : Regs) (unit : Nat) :
    stepAmount r unit .increase2Mode1 = (2, !(r.cmd != 0), false) := rfl
theorem stepAmount_decrease2Mode1 (r : Regs) (unit : Nat) :
    stepAmount r unit .decrease2Mode1 = (0xFFFE, !(r.cmd != 0), false) := rfl
theorem stepAmount_increase2Mode2 (r : Regs) (unit : Nat) :
    stepAmount r unit .increase2Mode2 = (2, false, !(r.cmd != 0)) := rfl
theorem stepAmount_decrease2Mode2 (r : Regs) (unit : Nat) :
    stepAmount r unit .decrease2Mode2 = (0xFFFE, false, !(r.cmd != 0)) := rfl
theorem stepAmount_zero (r : Regs) (unit : Nat) : stepAmount r unit .zero = (0, false, false) := rfl

theorem step_linear_increase (r : Regs) (unit : Nat) (a : U16) (dmod : Bool) (h : ¬ ModuloOn r unit dmod) :
    stepAddressPure r unit a .increase dmod = a + 1 := by
  rw [step_linear r unit a .increase dmod h, stepAmount_increase]

theorem step_linear_decrease (r : Regs) (unit : Nat) (a : U16) (dmod : Bool) (h : ¬ ModuloOn r unit dmod) :
    stepAddressPure r unit a .decrease dmod = a - 1 := by
  rw [step_linear r unit a .decrease dmod h, stepAmount_decrease]
  show a + 0xFFFF = a - 1
  apply BitVec.eq_of_toNat_eq
  simp only [BitVec.toNat_add, BitVec.toNat_sub]
  have e1 : (0xFFFF : U16).toNat = 65535 := rfl
  have e2 : (1 : U16).toNat = 1 := rfl
  rw [e1, e2]; omega

theorem step_linear_increase2 (r : Regs) (unit : Nat) (a : U16) (step : StepValue) (dmod : Bool)
    (h : ¬ ModuloOn r unit dmod) (hs : step = .increase2Mode1 ∨ step = .increase2Mode2) :
    stepAddressPure r unit a step dmod = a + 2 := by
  rw [step_linear r unit a step dmod h]
  rcases hs with hs | hs <;> subst hs <;> [rw [stepAmount_increase2Mode1]; rw [stepAmount_increase2Mode2]]

theorem step_linear_decrease2 (r : Regs) (unit : Nat) (a : U16) (step : StepValue) (dmod : Bool)
    (h : ¬ ModuloOn r unit dmod) (hs : step = .decrease2Mode1 ∨ step = .decrease2Mode2) :
    stepAddressPure r unit a step dmod = a - 2 := by
  rw [step_linear r unit a step dmod h]
  have e : a + 0xFFFE = a - 2 := by
    apply BitVec.eq_of_toNat_eq
    simp only [BitVec.toNat_add, BitVec.toNat_sub]
    have e1 : (0xFFFE : U16).toNat = 65534 := rfl
    have e2 : (2 : U16).toNat = 2 := rfl
    rw [e1, e2]; omega
  rcases hs with hs | hs <;> subst hs <;> [rw [stepAmount_decrease2Mode1]; rw [stepAmount_decrease2Mode2]] <;> exact e

theorem step_linear_plusStep (r : Regs) (unit : Nat) (a : U16) (dmod : Bool) (h : ¬ ModuloOn r unit dmod) :
    stepAddressPure r unit a .plusStep dmod = a + plusStepAmount r unit := by
  rw [step_linear r unit a .plusStep dmod h, stepAmount_plusStep]

/-! ## modulo stepping: unfolding -/

theorem inc_mod_aux (r : Regs) (unit : Nat) (a : U16) (dmod : Bool)
    (h : ModuloOn r unit dmod) (hm : modOf r unit ≠ 0) :
    stepAddressPure r unit a .increase dmod =
      if r.cmd = 0 then modStepNew (modOf r unit) 1 a else modStepLegacy (modOf r unit) 1 a false := by
  obtain ⟨h1, h2, h3⟩ := h
  unfold brOf at h2
  unfold mOf at h3
  unfold modOf at hm ⊢
  subst h1
  unfold stepAddressPure
  simp only [stepAmount]
  generalize r.br.toArray.getD unit 0 = brU at *
  generalize r.m.toArray.getD unit 0 = mU at *
  generalize (if unit < 4 then r.modi else r.modj) = mod at *
  subst h2
  simp_all


theorem dec_mod_aux (r : Regs) (unit : Nat) (a : U16) (dmod : Bool)
    (h : ModuloOn r unit dmod) (hm : modOf r unit ≠ 0) :
    stepAddressPure r unit a .decrease dmod =
      if r.cmd = 0 then modStepNew (modOf r unit) 0xFFFF a else modStepLegacy (modOf r unit) 0xFFFF a false := by
  obtain ⟨h1, h2, h3⟩ := h
  unfold brOf at h2
  unfold mOf at h3
  unfold modOf at hm ⊢
  subst h1
  unfold stepAddressPure
  simp only [stepAmount]
  generalize r.br.toArray.getD unit 0 = brU at *
  generalize r.m.toArray.getD unit 0 = mU at *
  generalize (if unit < 4 then r.modi else r.modj) = mod at *
  subst h2
  simp_all

/-! ## bits above the mask never change -/

theorem modStepNew_high (mod s a : U16) :
    modStepNew mod s a &&& ~~~lowMask mod = a &&& ~~~lowMask mod := by
  unfold modStepNew
  simp only []
  apply join_high
  split
  · split
    · simp
    · exact and_mask_high_zero _ _
  · exact and_mask_high_zero _ _

theorem modStepLegacy_high (mod s a : U16) (f : Bool) :
    modStepLegacy mod s a f &&& ~~~legacyMask mod s = a &&& ~~~legacyMask mod s := by
  have hmod : mod &&& ~~~legacyMask mod s = 0 := by
    unfold legacyMask
    rw [lowMask_eq]
    apply and_not_maskK_eq_zero _ _ (log2p1_le _)
    refine Nat.lt_of_le_of_lt ?_ (toNat_lt_two_pow_log2p1 _)
    split <;> rw [BitVec.toNat_or] <;> exact Nat.left_le_or
  unfold modStepLegacy
  unfold legacyMask at *
  by_cases hn : ((s >>> 15) != 0) = true
  · simp only [hn, if_true, Bool.not_true, Bool.false_eq_true, if_false] at hmod ⊢
    apply join_high
    split
    · exact hmod
    · exact and_mask_high_zero _ _
  · have hn' : ((s >>> 15) != 0) = false := by simpa using hn
    simp only [hn', Bool.not_false, if_true, Bool.false_eq_true, if_false] at hmod ⊢
    apply join_high
    split
    · simp
    · exact and_mask_high_zero _ _

/-- The mask `StepAddress` actually uses for a step kind: the TeakLite-compatible branch (and the
"step 2, mode 2" kinds) derive it from `mod ||| s` (resp. `mod ||| ~~~s`), the Teak branch from
`mod` alone. -/
def stepMask (r : Regs) (unit : Nat) (step : StepValue) : U16 :=
  if r.cmd != 0 || (stepAmount r unit step).2.2 then legacyMask (modOf r unit) (stepAmount r unit step).1
  else lowMask (modOf r unit)

theorem stepAmount_flags (r : Regs) (unit : Nat) (step : StepValue) :
    (stepAmount r unit step).2.1 = true → r.cmd = 0 ∧ (stepAmount r unit step).2.2 = false := by
  cases step <;> simp [stepAmount]

theorem step_high_bits (r : Regs) (unit : Nat) (a : U16) (step : StepValue) (dmod : Bool)
    (h : ModuloOn r unit dmod) :
    stepAddressPure r unit a step dmod &&& ~~~stepMask r unit step = a &&& ~~~stepMask r unit step := by
  obtain ⟨h1, h2, h3⟩ := h
  have hf := stepAmount_flags r unit step
  unfold brOf at h2
  unfold mOf at h3
  unfold stepMask modOf
  subst h1
  unfold stepAddressPure
  generalize stepAmount r unit step = t at *
  obtain ⟨s, m1, m2⟩ := t
  generalize r.br.toArray.getD unit 0 = brU at *
  generalize r.m.toArray.getD unit 0 = mU at *
  generalize (if unit < 4 then r.modi else r.modj) = mod at *
  subst h2
  simp only [] at hf ⊢
  split
  · rfl
  · have hc : (!false && (0 : U16) == 0 && mU != 0) = true := by simp; exact h3
    rw [if_pos hc]
    split
    · rfl
    · split
      · rfl
      · cases m1
        · have h12 : ((1 : Nat) == 2) = false := by decide
          simp only [Bool.false_eq_true, if_false, h12]
          by_cases hl : (r.cmd != 0 || m2) = true
          · simp only [hl, if_true]
            exact modStepLegacy_high mod s a m2
          · simp only [hl]
            exact modStepNew_high mod s a
        · obtain ⟨hc0, hm2⟩ := hf rfl
          subst hm2
          have hl : (r.cmd != 0 || false) = false := by simp [hc0]
          have h22 : ((2 : Nat) == 2) = true := by decide
          simp only [hl, if_true, Bool.false_eq_true, if_false, h22]
          rw [modStepNew_high, modStepNew_high]


/-! ## when the mask in use is the buffer's own mask -/

theorem legacyMask_two (mod : U16) (h2 : 2 ≤ mod.toNat) : legacyMask mod 2 = lowMask mod := by
  have hm : mod ≠ 0 := by intro h; subst h; simp at h2
  unfold legacyMask
  have : ((2 : U16) >>> 15 != 0) = false := by decide
  rw [this]
  simp only [Bool.false_eq_true, if_false]
  rw [lowMask_eq, lowMask_eq, log2p1_or_small mod 2 hm]
  have := (log2p1_spec mod hm).2.1
  have e : (2 : U16).toNat = 2 := rfl
  omega

theorem legacyMask_neg_two (mod : U16) (hm : mod ≠ 0) : legacyMask mod 0xFFFE = lowMask mod := by
  unfold legacyMask
  have h1 : ((0xFFFE : U16) >>> 15 != 0) = true := by decide
  have h2 : ~~~(0xFFFE : U16) = 1#16 := by decide
  rw [h1, if_pos rfl, h2, lowMask_eq, lowMask_eq]
  exact congrArg maskK (log2p1_or_one mod hm)

private theorem ite_both (c : Bool) (x y z : U16) (h1 : x = z) (h2 : y = z) :
    (if c = true then x else y) = z := by cases c <;> simp [*]

theorem stepMask_increase (r : Regs) (unit : Nat) (hm : modOf r unit ≠ 0) :
    stepMask r unit .increase = lowMask (modOf r unit) := by
  unfold stepMask
  simp only [stepAmount]
  exact ite_both _ _ _ _ (legacyMask_one _ hm) rfl

theorem stepMask_decrease (r : Regs) (unit : Nat) :
    stepMask r unit .decrease = lowMask (modOf r unit) := by
  unfold stepMask
  simp only [stepAmount]
  exact ite_both _ _ _ _ (legacyMask_neg_one _) rfl

/-- In Teak mode every step kind except the two "step 2, mode 2" kinds uses the buffer mask. -/
theorem stepMask_teak (r : Regs) (unit : Nat) (step : StepValue) (hc : r.cmd = 0)
    (h1 : step ≠ .increase2Mode2) (h2 : step ≠ .decrease2Mode2) :
    stepMask r unit step = lowMask (modOf r unit) := by
  unfold stepMask
  cases step <;> simp_all [stepAmount]

/-- The ±2 step kinds use the buffer mask as soon as `mod ≥ 2`. -/
theorem stepMask_two (r : Regs) (unit : Nat) (step : StepValue) (hm : 2 ≤ (modOf r unit).toNat)
    (hs : step = .increase2Mode1 ∨ step = .decrease2Mode1 ∨ step = .increase2Mode2 ∨ step = .decrease2Mode2) :
    stepMask r unit step = lowMask (modOf r unit) := by
  have hm0 : modOf r unit ≠ 0 := by intro h; rw [h] at hm; simp at hm
  unfold stepMask
  rcases hs with h | h | h | h <;> subst h <;> simp only [stepAmount]
  · exact ite_both _ _ _ _ (legacyMask_two _ hm) rfl
  · exact ite_both _ _ _ _ (legacyMask_neg_two _ hm0) rfl
  · exact ite_both _ _ _ _ (legacyMask_two _ hm) rfl
  · exact ite_both _ _ _ _ (legacyMask_neg_two _ hm0) rfl

end Teakra.Interp
