import TeakraModel.Generated.Facade
import TeakraModel.Golden.Facade
import TeakraModel.Generated.CBinding
import TeakraModel.Golden.CBinding
/-!
The facade translated from `src/teakra.cpp` of the tree under test equals the committed translation of the pinned tree,
against which the host-API functions of `TeakraModel/Bus.lean` (one per `Teakra::method`) were written.
-/
namespace Teakra

theorem facade_eq_golden :
    Generated.members = Golden.members ∧ Generated.wiring = Golden.wiring ∧ Generated.resetCalls = Golden.resetCalls ∧
    Generated.methods = Golden.methods ∧ Generated.methodSigs = Golden.methodSigs ∧
    Generated.cForwarders = Golden.cForwarders ∧ Generated.cSpecial = Golden.cSpecial ∧ Generated.icuToCore = Golden.icuToCore ∧ Generated.setMmio = Golden.setMmio := by
  decide +kernel

end Teakra
