import TeakraModel.Generated.DecodeTable
import TeakraModel.Golden.DecodeTable
/-!
# C02 — the regenerated decode table equals the committed snapshot of the pinned encoding

Kept apart from `Proofs/C02.lean`: when `/repo/src/decoder.h` or `operand.h` changes, *this* module stops
building (and `checks/c02.py` reports which opcodes decode differently), while the theorems of
`Proofs.C02` are re-proved over the new table.
-/
namespace Teakra.Decode

theorem table_eq_golden : table = Golden.table := by decide +kernel

theorem operandTypes_eq_golden : operandTypes = Golden.operandTypes := by decide +kernel

theorem enums_eq_golden :
    operandEnum = Golden.operandEnum ∧ cnTypes = Golden.cnTypes ∧ enums = Golden.enums ∧
    expansionPos = Golden.expansionPos := by decide +kernel

end Teakra.Decode
