import Proofs.C07.Latch
import Proofs.C07.Push
import Proofs.C07.Entry
import Proofs.C07.Cycle
import Proofs.C07.Raise
import Proofs.C07.Reti
/-!
# C07 — interrupts are delivered exactly once, in priority order, never spuriously

The controller half is `Proofs/C07Icu.lean`.  This file and `Proofs/C07/*` are the core half and
the composition:

* `Proofs/C07/Latch.lean` — `latched_spec`, `latch_once`: the latch phase of the loop body.
* `Proofs/C07/Push.lean`  — `pushPC_spec`, `pushPC_run`: `PushPC` at bus level.
* `Proofs/C07/Entry.lean` — `interruptCheck_spec` and its consequences `priority`,
  `masked_never_enters`, `disabled_never_enters`, `rep_holds_off`, `entry_clears_enable`,
  `entry_consumes_request`, `no_spurious`, `enabled_enters`, `entry_pushes_next_pc`.
* `Proofs/C07/Cycle.lean` — `cycle_entry_after_exec`: latch, instruction, then the interrupt block.
* `Proofs/C07/Raise.lean` — `raise_reaches_core`, `unrouted_never_latches`, `raised_stays_pending`.
* `Proofs/C07/Reti.lean`  — `reti_run`, `retic_run`, `reti_effect`.

Below: the end-to-end chain and the non-vacuity examples.
-/
namespace Teakra
open Teakra Exec ExecLemmas Interp Sys Icu

/-! ## end to end: raise → latch → `ip` → entry -/

/-- **A routed request becomes an `ip` bit at the next loop iteration.**  After
`icu.TriggerSingle(irq)` with `irq` enabled on line `l`, the latch phase of the next loop
iteration sets `ip[l] = 1`; the `ip`/`ipv` bits of lines that are neither routed nor already
latched keep their value. -/
theorem raise_then_latch (p : Periph) (irq : Nat) (hirq : irq < 16) (c : Core) (l : Fin 3) :
    (p.icu.enabled[l].getLsbD irq = true →
      (latched (c.emit (p.raise irq).2)).regs.ip[l] = 1) ∧
    (p.icu.enabled[l].getLsbD irq = false → c.ipend[l] = false →
      (latched (c.emit (p.raise irq).2)).regs.ip[l] = c.regs.ip[l]) ∧
    (p.icu.vectoredEnabled.getLsbD irq = true → (latched (c.emit (p.raise irq).2)).regs.ipv = 1) ∧
    (p.icu.vectoredEnabled.getLsbD irq = false → c.vpend = false →
      (latched (c.emit (p.raise irq).2)).regs.ipv = c.regs.ipv) := by
  obtain ⟨_, _, hip, hvp, _, _, hregs, _⟩ := raise_reaches_core p irq hirq c
  refine ⟨fun h => ?_, fun h h' => ?_, fun h => ?_, fun h h' => ?_⟩
  · refine (latched_ip (c.emit (p.raise irq).2) l.val l.isLt).trans ?_
    have e : (c.emit (p.raise irq).2).ipend[l.val] = true := by
      have := hip l; rw [h, Bool.or_true] at this; exact this
    rw [e]; rfl
  · refine (latched_ip (c.emit (p.raise irq).2) l.val l.isLt).trans ?_
    have e : (c.emit (p.raise irq).2).ipend[l.val] = false := by
      have := hip l; rw [h, Bool.or_false] at this; exact this.trans h'
    rw [e, hregs]; rfl
  · rw [latched_ipv, hvp, h, Bool.or_true]; rfl
  · rw [latched_ipv, hvp, h, h', hregs]; rfl

/-- **Delivery.**  A request routed to line `l`, raised while the core has interrupts enabled,
line `l` unmasked and no `rep` running, leads to an entry at the first instruction boundary
after the latch phase, provided the instruction executed in between (`execPhase`) leaves `ie`,
`rep`, `im[l]` and `ip[l]` as they are: line `l` itself, or a lower-numbered line that is also
ready (`priority`). -/
theorem routed_request_enters (p : Periph) (irq : Nat) (hirq : irq < 16) (c : Core) (l : Fin 3)
    (hroute : p.icu.enabled[l].getLsbD irq = true) (c2 : Core)
    (hexec : execPhase.run (latched (c.emit (p.raise irq).2)) = .ok ((), c2))
    (hie : c2.regs.ie ≠ 0) (hrep : c2.regs.rep = false) (him : c2.regs.im[l] ≠ 0)
    (hip : c2.regs.ip[l] = (latched (c.emit (p.raise irq).2)).regs.ip[l]) :
    ∃ j : Fin 3, j ≤ l ∧
      cycle.run (c.emit (p.raise irq).2) = (enterLine j).run c2 := by
  have h1 : c2.regs.ip[l] = 1 := by rw [hip]; exact (raise_then_latch p irq hirq c l).1 hroute
  have hne : c2.regs.ip[l] ≠ 0 := by rw [h1]; decide
  obtain ⟨j, hj, hd⟩ := enabled_enters c2 l hie hrep ⟨him, hne⟩
  refine ⟨j, hj, ?_⟩
  rw [cycle_spec, hexec]
  show (entryDecision c2.regs).exec.run c2 = _
  rw [hd]; rfl

/-! ## a remark on the vectored interrupt -/

/-- **The vectored handler address is not latched with the request.**
`SignalVectoredInterrupt` overwrites `vinterrupt_address` / `vinterrupt_context_switch` even when
an earlier vectored request is still pending in `ipv` (or in `vinterrupt_pending`), and the entry
reads them only at entry time: a pending vectored request for vector `A` followed by a request
for vector `B` before the entry results in an entry at `B` (and, the second request having set
the latch again, a second entry at `B` later) — the handler at `A` is never entered.  This is
the behaviour of src/interpreter.h (`vinterrupt_address` is a single `std::atomic<u32>`), not an
artefact of the model. -/
theorem vectored_address_is_latest (c : Core) (a b : U32) (ca cb : Bool) :
    ((c.signal (.virq a ca)).signal (.virq b cb)).vaddr = b ∧
    ((c.signal (.virq a ca)).signal (.virq b cb)).vctx = cb ∧
    ((c.signal (.virq a ca)).signal (.virq b cb)).vpend = true ∧
    (∀ c1 a1 a2, c1.vaddr = b →
      OrdinaryAt c1.bus (c1.regs.sp - 1) a1 → OrdinaryAt c1.bus (c1.regs.sp - 2) a2 →
      ∃ c', enterVectored.run c1 = .ok ((), c') ∧ c'.regs.pc = b) := by
  refine ⟨rfl, rfl, rfl, fun c1 a1 a2 hb h1 h2 => ⟨_, vectored_entry_pushes_next_pc_ordinary c1 a1 a2 h1 h2, ?_⟩⟩
  show (vecEntryRegs c1.vaddr c1.vctx c1.regs).pc = b
  rw [← hb]
  exact congrArg IntPart.pc (intPart_vecEntryRegs c1.vaddr c1.vctx c1.regs)

/-! ## non-vacuity -/

/-- A state with interrupts enabled, all lines unmasked, lines 1 and 2 and the vectored
interrupt requested, stack at `0x1000` (ordinary memory with the reset MIU), `pc = 0x1234`. -/
def exTwo : Core :=
  { regs := { ie := 1, im := #v[1, 1, 1], ip := #v[0, 1, 1], imv := 1, ipv := 1,
              sp := 0x1000, pc := 0x1234 } }

private theorem exTwo_stack :
    OrdinaryAt exTwo.bus (exTwo.regs.sp - 1) 0x20FFF ∧ OrdinaryAt exTwo.bus (exTwo.regs.sp - 2) 0x20FFE :=
  ⟨⟨by decide, by decide, by decide⟩, ⟨by decide, by decide, by decide⟩⟩

/-- Two lines and the vectored interrupt deliverable: line 1 (the lowest) is entered — handler
`0x000E`, `ie` cleared, `sp = 0x0FFE`, `ip[1]` consumed, `ip[2]` and `ipv` still pending, return
address `0x1234` written as `0x0000` at `0x0FFF` and `0x1234` at `0x0FFE` (`cpc = 1`). -/
example :
    entryDecision exTwo.regs = .line 1 ∧
    ∃ c', interruptCheck.run exTwo = .ok ((), c') ∧
      c'.regs.pc = 0x000E ∧ c'.regs.ie = 0 ∧ c'.regs.sp = 0x0FFE ∧
      c'.regs.ip = #v[0, 0, 1] ∧ c'.regs.ipv = 1 ∧ c'.idle = false ∧
      c'.log = [⟨0x41FFC, true, 0x1234⟩, ⟨0x41FFE, true, 0x0000⟩] := by
  have hp := priority exTwo 1 (by decide) rfl ⟨by decide, by decide⟩ (by decide)
  refine ⟨hp.1, _, hp.2.1.trans (entry_pushes_next_pc_ordinary 1 exTwo _ _ exTwo_stack.1 exTwo_stack.2),
    ?_, ?_, ?_, ?_, ?_, rfl, ?_⟩
  all_goals first | rfl | decide

/-- Line 0 requested but masked, line 2 requested and unmasked. -/
def exMasked : Core :=
  { regs := { ie := 1, im := #v[0, 1, 1], ip := #v[1, 0, 1], sp := 0x1000, pc := 0x0100 } }

/-- The masked request is not entered (line 2 is, although it has lower priority) and stays
pending: `ip[0] = 1` afterwards. -/
example :
    entryDecision exMasked.regs = .line 2 ∧
    ∀ c', interruptCheck.run exMasked = .ok ((), c') →
      c'.regs.ip[(0 : Fin 3)] = 1 ∧ c'.regs.ip[(2 : Fin 3)] = 0 ∧ c'.regs.pc = 0x0016 := by
  have hp := priority exMasked 2 (by decide) rfl ⟨by decide, by decide⟩ (by decide)
  refine ⟨hp.1, fun c' h => ?_⟩
  have hm := (masked_never_enters exMasked 0 (by decide)).2 c' h
  obtain ⟨hpc, h2, _, _⟩ := hp.2.2 c' h
  exact ⟨hm, h2, hpc⟩

/-- With everything masked a pending request is inert: the interrupt block does nothing. -/
example :
    interruptCheck.run ({ regs := { ie := 1, ip := #v[1, 1, 1], ipv := 1 } } : Core) =
      .ok ((), { regs := { ie := 1, ip := #v[1, 1, 1], ipv := 1 } }) := by
  rw [interruptCheck_eq_decision]
  rfl

/-- Routing example: request 0xA (timer 0) enabled on line 1 and vectored with vector
`0x0003:0x0010` and context switch. -/
example :
    let p : Periph := { icu := { enabled := #v[0, 0x0400, 0], vectoredEnabled := 0x0400,
                                  vectorLow := Vector.replicate 16 0x10,
                                  vectorHigh := Vector.replicate 16 3,
                                  vectorContextSwitch := Vector.replicate 16 1 } }
    (p.raise 0xA).2 = [.irq 1, .virq 0x30010 true] ∧ (p.raise 0xA).1.icu.request = 0x0400 := by
  decide

end Teakra
