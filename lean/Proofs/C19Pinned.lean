import Proofs.C19Lock
import TeakraModel.Golden.LockTableUpstream
/-!
# C19, lock discipline of the pinned tree: the two data races, and the one-line repair

Theorems over the committed snapshot `Upstream.table` only (so this module is built once and stays valid when
`/repo` is repaired): the counterexamples to `race_free` and what holds after `SetDisableInterrupt` takes the
channel mutex.
-/
namespace Teakra.Lock

/-! ## the counterexamples, on the pinned snapshot -/

/-- host: `Teakra::SendData` → `DataChannel::Send` reads `disable_interrupt` under the channel mutex;
DSP: MMIO `0x0D4` bit 8 → `DataChannel::SetDisableInterrupt` writes it under no lock. -/
def wDisableInterrupt : IAccess × IAccess :=
  (⟨n% "host", n% "Teakra::SendData", (n% "apbp_from_cpu", n% "DataChannel.Send"), (n% "apbp_from_cpu", n% "DataChannel.disable_interrupt"),
     false, [(n% "apbp_from_cpu", n% "DataChannel.mutex")], false⟩,
   ⟨n% "dsp", n% "cells[0x0D4] slot{8,1}.set", (n% "apbp_from_cpu", n% "DataChannel.SetDisableInterrupt"),
     (n% "apbp_from_cpu", n% "DataChannel.disable_interrupt"), true, [], false⟩)

/-- host: `Teakra::SendData` → handler → `ICU::Trigger` → `GetVector` reads `vector_low[irq]` under the ICU
mutex; DSP: MMIO `0x214+4i` (`Cell::RefCell`) writes it under no lock. -/
def wVectorLow : IAccess × IAccess :=
  (⟨n% "host", n% "Teakra::SendData", (n% "icu", n% "ICU.GetVector"), (n% "icu", n% "ICU.vector_low"), false, [(n% "icu", n% "ICU.mutex")], false⟩,
   ⟨n% "dsp", n% "cells[0x214 + i * 4]", (n% "mmio set", n% "cells[0x214 + i * 4]"), (n% "icu", n% "ICU.vector_low"),
     true, [], false⟩)

def wVectorHigh : IAccess × IAccess :=
  (⟨n% "host", n% "Teakra::SendData", (n% "icu", n% "ICU.GetVector"), (n% "icu", n% "ICU.vector_high"), false, [(n% "icu", n% "ICU.mutex")], false⟩,
   ⟨n% "dsp", n% "cells[0x212 + i * 4] slot{0,2}", (n% "mmio set", n% "cells[0x212 + i * 4] slot{0,2}"),
     (n% "icu", n% "ICU.vector_high"), true, [], false⟩)

def wVectorCtx : IAccess × IAccess :=
  (⟨n% "host", n% "Teakra::SendData", (n% "icu", n% "ICU.Trigger"), (n% "icu", n% "ICU.vector_context_switch"), false, [(n% "icu", n% "ICU.mutex")], false⟩,
   ⟨n% "dsp", n% "cells[0x212 + i * 4] slot{15,1}", (n% "mmio set", n% "cells[0x212 + i * 4] slot{15,1}"),
     (n% "icu", n% "ICU.vector_context_switch"), true, [], false⟩)

def isWitness (t : LockTable) (w : IAccess × IAccess) : Bool :=
  (iaccesses t).contains w.1 && (iaccesses t).contains w.2 && conflict w.1 w.2

def goldenChecks : Bool :=
  [wDisableInterrupt, wVectorLow, wVectorHigh, wVectorCtx].all (isWitness Upstream.table) &&
  racyFields Upstream.table == [n% "DataChannel.disable_interrupt", n% "ICU.vector_context_switch", n% "ICU.vector_low", n% "ICU.vector_high"]

set_option maxRecDepth 100000 in
theorem golden_checks : goldenChecks = true := by decide +kernel

private theorem witness_of (w : IAccess × IAccess) (h : isWitness Upstream.table w = true) :
    w.1 ∈ iaccesses Upstream.table ∧ w.2 ∈ iaccesses Upstream.table ∧ Conflict w.1 w.2 := by
  simp only [isWitness, Bool.and_eq_true, List.contains_iff_mem, conflict_iff] at h
  exact ⟨h.1.1, h.1.2, h.2⟩

private theorem golden_checks' :
    isWitness Upstream.table wDisableInterrupt = true ∧ isWitness Upstream.table wVectorLow = true ∧
    isWitness Upstream.table wVectorHigh = true ∧ isWitness Upstream.table wVectorCtx = true ∧
    racyFields Upstream.table = [n% "DataChannel.disable_interrupt", n% "ICU.vector_context_switch", n% "ICU.vector_low", n% "ICU.vector_high"] := by
  have h := golden_checks
  simp only [goldenChecks, List.all_cons, List.all_nil, Bool.and_true, Bool.and_eq_true, beq_iff_eq] at h
  obtain ⟨⟨h1, h2, h3, h4⟩, h5⟩ := h
  exact ⟨h1, h2, h3, h4, h5⟩

/-- **Counterexample 1 (data race on `disable_interrupt`)**: on the pinned tree the host thread's
`Teakra::SendData` (`DataChannel::Send`, read under the channel mutex) and the DSP thread's MMIO write to
`0x0D4` (`DataChannel::SetDisableInterrupt`, write under no lock) race on `apbp_from_cpu`'s
`disable_interrupt`. -/
theorem race_witness_disable_interrupt :
    wDisableInterrupt.1 ∈ iaccesses Upstream.table ∧ wDisableInterrupt.2 ∈ iaccesses Upstream.table ∧
    Conflict wDisableInterrupt.1 wDisableInterrupt.2 := witness_of _ golden_checks'.1

/-- **Counterexample 2 (data race on the ICU vector tables)**, `vector_low`: host `Teakra::SendData` →
`icu.TriggerSingle(0xE)` → `GetVector` (read under the ICU mutex) against the DSP thread's MMIO write
`0x214+4i` through `Cell::RefCell` (no lock). -/
theorem race_witness_icu_vector_low :
    wVectorLow.1 ∈ iaccesses Upstream.table ∧ wVectorLow.2 ∈ iaccesses Upstream.table ∧
    Conflict wVectorLow.1 wVectorLow.2 := witness_of _ golden_checks'.2.1

/-- … `vector_high` (MMIO `0x212+4i` bits 0–1 through `BitFieldSlot::RefSlot`). -/
theorem race_witness_icu_vector_high :
    wVectorHigh.1 ∈ iaccesses Upstream.table ∧ wVectorHigh.2 ∈ iaccesses Upstream.table ∧
    Conflict wVectorHigh.1 wVectorHigh.2 := witness_of _ golden_checks'.2.2.1

/-- … `vector_context_switch` (MMIO `0x212+4i` bit 15), read directly in `ICU::Trigger`. -/
theorem race_witness_icu_vector_context_switch :
    wVectorCtx.1 ∈ iaccesses Upstream.table ∧ wVectorCtx.2 ∈ iaccesses Upstream.table ∧
    Conflict wVectorCtx.1 wVectorCtx.2 := witness_of _ golden_checks'.2.2.2.1

/-- The racy members of the pinned tree are exactly these four. -/
theorem racy_fields_golden :
    racyFields Upstream.table =
      [n% "DataChannel.disable_interrupt", n% "ICU.vector_context_switch", n% "ICU.vector_low", n% "ICU.vector_high"] :=
  golden_checks'.2.2.2.2

/-- **`race_free` fails on the pinned tree.** -/
theorem race_free_golden_false : ¬ RaceFree Upstream.table := by
  intro h
  obtain ⟨h1, h2, h3⟩ := race_witness_disable_interrupt
  exact h _ h1 _ h2 rfl (by simp) h3

/-! ## the one-line repair -/

/-- The table of the tree in which `DataChannel::SetDisableInterrupt` starts with
`std::lock_guard lock(mutex);`. -/
def patchSetDisableInterrupt (t : LockTable) : LockTable :=
  { t with
    accesses := t.accesses.map fun a =>
      if Nat.beq a.method (n% "DataChannel.SetDisableInterrupt") then { a with locks := [n% "DataChannel.mutex"] } else a
    acquires := t.acquires ++ [⟨n% "DataChannel.SetDisableInterrupt", n% "DataChannel.mutex", []⟩] }

set_option maxRecDepth 100000 in
theorem patched_checks :
    (tableChecks (patchSetDisableInterrupt Upstream.table) icuVectors &&
     racyFields (patchSetDisableInterrupt Upstream.table) == [n% "ICU.vector_context_switch", n% "ICU.vector_low", n% "ICU.vector_high"]) = true := by
  decide +kernel

/-- **After the repair** (taking the channel mutex in `SetDisableInterrupt`) the only racy members left are
the three ICU vector tables, and the lock order stays acyclic. -/
theorem race_free_after_patch :
    RaceFreeExcept (patchSetDisableInterrupt Upstream.table) icuVectors ∧
    Acyclic (lockEdges (patchSetDisableInterrupt Upstream.table)) := by
  have h := patched_checks
  simp only [tableChecks, Bool.and_eq_true, List.isEmpty_iff] at h
  obtain ⟨⟨⟨⟨⟨⟨_, h2⟩, h3⟩, _⟩, _⟩, _⟩, _⟩ := h
  exact ⟨(findRaces_sound _ _).1 h2, edgesForward_sound _ _ h3⟩

/-! ## non-vacuity -/

/-- The analysed access sets are not empty: the host thread's send reads `ready`'s neighbour `data` under
the channel mutex, and the DSP thread's receive reads it under the same mutex (so the quantifiers of
`race_free_partial` range over real cross-thread pairs on the same member). -/
example :
    (⟨n% "host", n% "Teakra::SendData", (n% "apbp_from_cpu", n% "DataChannel.Send"), (n% "apbp_from_cpu", n% "DataChannel.data"), true,
      [(n% "apbp_from_cpu", n% "DataChannel.mutex")], false⟩ : IAccess) ∈ iaccesses Upstream.table ∧
    (⟨n% "dsp", n% "cells[0x0C2 + i * 4].get", (n% "apbp_from_cpu", n% "DataChannel.Recv"), (n% "apbp_from_cpu", n% "DataChannel.data"), false,
      [(n% "apbp_from_cpu", n% "DataChannel.mutex")], false⟩ : IAccess) ∈ iaccesses Upstream.table := by
  decide +kernel

/-- A cyclic graph is rejected by the order check (the check is not vacuous). -/
example : edgesForward (topo [((n% "a", n% "m"), (n% "b", n% "m")), ((n% "b", n% "m"), (n% "a", n% "m"))] 2 [(n% "a", n% "m"), (n% "b", n% "m")])
    [((n% "a", n% "m"), (n% "b", n% "m")), ((n% "b", n% "m"), (n% "a", n% "m"))] = false := by decide

end Teakra.Lock
