import TeakraModel.Sys
import Proofs.C11
/-!
# C18 — where an out-of-bounds access can arise (partial)

Every access the bus model makes to the DSP memory goes through `Mem.readWord` / `Mem.writeWord`,
which perform the access only inside the 0x80000-byte array; an attempt outside it is the explicit
outcome `.oob` (what the `TEAKRA_VERIF` observer reports on the real code before the access is made).
The theorems below say exactly where that outcome can and cannot arise.  That the C++ has no other
path to memory, and no undefined behaviour of other kinds, is not provable here (level: partial) —
it is explored on the real code with the observer hook and sanitizers by `checks/c18.py`.
-/
namespace Teakra.C18
open Teakra.Bus

private theorem byteAddr_of_inRange (wa : U32) (h : Mem.inRange wa = true) : Mem.byteAddr wa + 1 < 0x80000 := by
  unfold Mem.inRange at h
  unfold Mem.byteAddr
  have hlt : wa.toNat < 0x40000 := by simpa using h
  have : (wa * 2).toNat = wa.toNat * 2 := by rw [BitVec.toNat_mul]; simp; omega
  rw [this]; omega

/-- A completed word read touched two bytes inside the array. -/
theorem readWord_inbounds (m : Mem) (wa : U32) (v : U16) (a : Access) (h : m.readWord wa = .ok (v, a)) :
    a.byteAddr + 1 < 0x80000 ∧ a.byteAddr = Mem.byteAddr wa := by
  unfold Mem.readWord at h
  split at h
  · rename_i hr
    cases h
    exact ⟨byteAddr_of_inRange wa hr, rfl⟩
  · cases h

/-- A completed word write touched two bytes inside the array. -/
theorem writeWord_inbounds (m m' : Mem) (wa : U32) (v : U16) (a : Access) (h : m.writeWord wa v = .ok (m', a)) :
    a.byteAddr + 1 < 0x80000 ∧ a.byteAddr = Mem.byteAddr wa := by
  unfold Mem.writeWord at h
  split at h
  · rename_i hr
    cases h
    exact ⟨byteAddr_of_inRange wa hr, rfl⟩
  · cases h

/-- **No access outside the array, on any path.**  `SharedMemory::ReadWord/WriteWord` — the only functions
of the model that touch the array — either perform an access inside it or end in the deliberate assertion;
`oob` is not an outcome of the memory any more. -/
theorem readWord_never_oob (m : Mem) (wa : U32) : m.readWord wa ≠ .error .oob := by
  unfold Mem.readWord; split <;> simp

theorem writeWord_never_oob (m : Mem) (wa : U32) (v : U16) : m.writeWord wa v ≠ .error .oob := by
  unfold Mem.writeWord; split <;> simp

/-- Every access a completed `ProgramRead` reports is inside the array. -/
theorem programRead_inbounds (b : Bus) (p : U32) (v : U16) (accs : List Access)
    (h : b.programRead p = .ok (v, accs)) : ∀ a ∈ accs, a.byteAddr + 1 < 0x80000 := by
  unfold programRead at h
  cases hr : b.mem.readWord p with
  | error e => rw [hr] at h; cases h
  | ok r =>
    obtain ⟨v', a'⟩ := r
    rw [hr] at h
    cases h
    intro a ha
    simp only [List.mem_singleton] at ha
    subst ha
    exact (readWord_inbounds _ _ _ _ hr).1

/-- `ProgramRead` ends in the assertion exactly when the word address is outside the 0x40000 words
(named `…_oob_iff` for the outcome it replaces: on the pinned upstream tree this was the out-of-bounds read). -/
theorem programRead_oob_iff (b : Bus) (p : U32) :
    (b.programRead p = .error .assert ↔ Mem.inRange p = false) ∧
    (b.programRead p = .error .assert ↔ 0x40000 ≤ p.toNat) := by
  have key : b.programRead p = .error .assert ↔ Mem.inRange p = false := by
    unfold programRead Mem.readWord
    cases hr : Mem.inRange p <;> simp
  refine ⟨key, ?_⟩
  rw [key]
  unfold Mem.inRange
  simp

theorem programWrite_oob_iff (b : Bus) (p : U32) (v : U16) :
    b.programWrite p v = .error .assert ↔ 0x40000 ≤ p.toNat := by
  unfold programWrite Mem.writeWord Mem.inRange
  by_cases h : p.toNat < 0x40000
  · simp [h]
  · simp [h]; omega

/-- **A data access never leaves the array** in the default paging mode: with bank `z < 2` a load or
store outside the MMIO window (or with bypass) completes. (`z ≥ 2` is an assertion abort, not an
access.) -/
theorem data_access_never_oob (b : Bus) (a v : U16) (bypass : Bool) (hp : b.miu.pageMode = 0) (hz : b.miu.zPage < 2)
    (hw : (b.miu.inMmioWindow a && !bypass) = false) :
    (∃ r, b.dataRead a bypass = .ok r) ∧ (∃ r, b.dataWrite a v bypass = .ok r) := by
  have hzn : b.miu.zPage.toNat < 2 := hz
  have hconv : b.miu.convert a = .ok (0x20000 + a.setWidth 32 + b.miu.zPage.setWidth 32 * 0x10000) := by
    unfold Miu.convert
    rw [if_pos hp, if_pos hz]
  have hin : Mem.inRange (0x20000 + a.setWidth 32 + b.miu.zPage.setWidth 32 * 0x10000) = true := by
    have ha : a.toNat < 0x10000 := a.isLt
    have hlt : (0x20000 + a.setWidth 32 + b.miu.zPage.setWidth 32 * 0x10000 : U32).toNat < 0x40000 := by
      simp [BitVec.toNat_add, BitVec.toNat_mul]
      omega
    exact ((mem_bounds _).2 (by omega)).mpr hlt
  constructor
  · unfold dataRead
    rw [if_neg (by rw [hw]; exact Bool.false_ne_true), hconv]
    simp only []
    unfold Mem.readWord
    rw [if_pos hin]
    exact ⟨_, rfl⟩
  · unfold dataWrite
    rw [if_neg (by rw [hw]; exact Bool.false_ne_true), hconv]
    simp only []
    unfold Mem.writeWord
    rw [if_pos hin]
    exact ⟨_, rfl⟩

/-- **Instruction fetch.**  The fetch address `prpage << 18 | pc` is inside the array exactly when
`prpage` (4 bits) is 0 and `pc < 0x40000`. -/
theorem fetch_inrange_iff (r : Regs) (hpg : r.prpage.toNat < 16) :
    Mem.inRange (Sys.fetchAddress r) = true ↔ (r.prpage = 0 ∧ r.pc.toNat < 0x40000) := by
  unfold Mem.inRange Sys.fetchAddress
  have h3 : ((r.prpage.setWidth 32 : U32) <<< 18).toNat = r.prpage.toNat * 2 ^ 18 := by
    simp [BitVec.toNat_shiftLeft, Nat.shiftLeft_eq]
    omega
  have hor := BitVec.toNat_or (x := r.pc) (y := (r.prpage.setWidth 32 : U32) <<< 18)
  constructor
  · intro h
    have h' : (r.pc ||| (r.prpage.setWidth 32 : U32) <<< 18).toNat < 0x40000 := by simpa using h
    rw [hor] at h'
    have h1 : r.pc.toNat ≤ r.pc.toNat ||| ((r.prpage.setWidth 32 : U32) <<< 18).toNat := Nat.left_le_or
    have h2 : ((r.prpage.setWidth 32 : U32) <<< 18).toNat ≤ r.pc.toNat ||| ((r.prpage.setWidth 32 : U32) <<< 18).toNat := Nat.right_le_or
    refine ⟨?_, by omega⟩
    have : r.prpage.toNat = 0 := by omega
    exact BitVec.eq_of_toNat_eq (by simpa using this)
  · rintro ⟨h0, hpc'⟩
    rw [h0]
    simpa using hpc'

/-- The two ways a fetch address can be outside the program space: both now end in the assertion of
`SharedMemory::ReadWord` (on the pinned upstream tree they read beyond the array). -/
theorem fetch_oob_witness_prpage :
    Mem.inRange (Sys.fetchAddress { pc := 0x100, prpage := 1 }) = false := by decide
theorem fetch_oob_witness_pc :
    Mem.inRange (Sys.fetchAddress { pc := 0x40000 }) = false := by decide

/-- `Dma::ActivateChannel` keeps the channel index inside `channels[8]`. -/
theorem activateChannel_lt (d : Dma) (v : U16) : (d.activateChannel v).activeChannel.toNat < 8 := by
  unfold Dma.activateChannel
  simp only
  have : (v &&& 7).toNat ≤ 7 := by
    rw [BitVec.toNat_and]
    exact Nat.and_le_right
  omega

/-- Hence a channel-window access after any write of CHANNEL indexes inside the array: the model's
range guard does not fire. -/
theorem window_index_inbounds (d : Dma) (v : U16) (f : DmaChannel → U16) :
    ∃ x, (d.activateChannel v).getActive f = .ok x := by
  unfold Dma.getActive
  simp [activateChannel_lt d v]

/-- The pinned upstream code stored the written value unmasked: CHANNEL := 8 made every window access
index `channels[8]`. -/
theorem upstream_window_index_witness :
    ({ ({} : Dma) with activeChannel := 8 }).getActive (fun c => c.addrSrcLow) = .error .oob := by
  decide

/-- **DMA, DSP side.**  After the repair every DSP-space address of a transfer is reduced to the 17 bits of
the two data banks, so the word index is inside the array for every 32-bit channel address. -/
theorem dma_dsp_index_inbounds (cur : U32) : ∃ i, dspIndex cur = some i ∧ i.toNat < 0x40000 := by
  unfold dspIndex
  generalize hx : cur &&& 0x1FFFF = x
  have hm : x.toNat ≤ 0x1FFFF := by
    rw [← hx, BitVec.toNat_and]
    exact Nat.and_le_right
  have hb : ((0x20000 + x) * 2 : U32).toNat = (0x20000 + x.toNat) * 2 := by
    simp [BitVec.toNat_mul, BitVec.toNat_add]
    omega
  refine ⟨((0x20000 + x) * 2 : U32) >>> 1, ?_, ?_⟩
  · simp only []
    rw [if_pos (by rw [hb]; omega)]
  · rw [BitVec.toNat_ushiftRight, hb, Nat.shiftRight_eq_div_pow]
    omega

/-- The pinned upstream code used the address unmasked: channel addresses `0x00020000` and `0x0FFF0000` leave
the array. -/
theorem upstream_dma_dsp_index_witness : dspIndexUpstream 0x20000 = none ∧ dspIndexUpstream 0x0FFF0000 = none := by
  decide

/-- MMIO cell index: both callers mask the address to 11 bits, so `cells[off]` is in range. -/
theorem mmio_offset_inbounds (addr : U16) : (addr &&& 0x7FF).toNat < mmioSize := by
  have : (addr &&& 0x7FF).toNat ≤ 0x7FF := by
    rw [BitVec.toNat_and]
    exact Nat.and_le_right
  unfold mmioSize
  omega

end Teakra.C18
