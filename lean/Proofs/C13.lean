import TeakraModel.Ahbm
import TeakraModel.Dma
/-!
# C13 — a DMA transfer copies exactly the documented 3-D strided element sequence

Property theorems about `Teakra.Dma` / `Teakra.DmaChannel` (model of `src/dma.cpp`) and
`Teakra.AhbmChannel` (model of `src/ahbm.cpp`); the tie to the C++ is the `dma` correspondence
slice.  Helper lemmas are `private`.

* `dma_trace` — the cursor pairs visited by the `Tick` loop are the closed-form list `spec`
  (zero sizes as one, double-word mode counting by two), for **every** configuration (the code
  under test has the repaired 32-bit cursor counters);
* `dma_hangs_upstream` — with the upstream `u16` counters the loop did not end for
  `dword_mode ≠ 0 ∧ size0 = 0xFFFF` (the repaired defect, kept as a proved witness);
* `dma_terminates`, `dma_run_eq_fold`, `dma_memory`, `dma_memory_frame`, `dma_irq_once`;
* AHBM: `aligned_unit_exact_*`, `burst_transparent_write`, `burst_transparent_read`, and the
  excluded points as proved examples (`burst_tail_lost`, `burst_tail_stale`,
  `ext_to_ext_burst_misplaced`).
-/
namespace Teakra
open DmaChannel

def elemOff (s0 s1 s2 m0 m1 k2 k1 k0 : Nat) : Nat :=
  s0 * (k0 + m0 * (k1 + (m1 + 1) * k2)) + s1 * (k1 + m1 * k2) + s2 * k2

private theorem elemOff_step0 (s0 s1 s2 m0 m1 k2 k1 k0 : Nat) :
    elemOff s0 s1 s2 m0 m1 k2 k1 (k0 + 1) = elemOff s0 s1 s2 m0 m1 k2 k1 k0 + s0 := by
  unfold elemOff; grind
private theorem elemOff_step1 (s0 s1 s2 m0 m1 k2 k1 : Nat) :
    elemOff s0 s1 s2 m0 m1 k2 (k1 + 1) 0 = elemOff s0 s1 s2 m0 m1 k2 k1 m0 + s1 := by
  unfold elemOff; grind
private theorem elemOff_step2 (s0 s1 s2 m0 m1 k2 : Nat) :
    elemOff s0 s1 s2 m0 m1 (k2 + 1) 0 0 = elemOff s0 s1 s2 m0 m1 k2 m1 m0 + s2 := by
  unfold elemOff; grind

/-- `addr_src_low | ((u32)addr_src_high << 16)` -/
def srcBase (c : DmaChannel) : U32 := c.addrSrcHigh ++ c.addrSrcLow
/-- `addr_dst_low | ((u32)addr_dst_high << 16)` -/
def dstBase (c : DmaChannel) : U32 := c.addrDstHigh ++ c.addrDstLow

/-- Source cursor of element `(k2,k1,k0)`: 32-bit start address plus the offset, modulo 2^32
(steps are unsigned 16-bit increments). -/
def srcAt (c : DmaChannel) (k2 k1 k0 : Nat) : U32 :=
  srcBase c + BitVec.ofNat 32 (elemOff c.srcStep0.toNat c.srcStep1.toNat c.srcStep2.toNat (c.n0 - 1) (c.n1 - 1) k2 k1 k0)
/-- Destination cursor of element `(k2,k1,k0)`. -/
def dstAt (c : DmaChannel) (k2 k1 k0 : Nat) : U32 :=
  dstBase c + BitVec.ofNat 32 (elemOff c.dstStep0.toNat c.dstStep1.toNat c.dstStep2.toNat (c.n0 - 1) (c.n1 - 1) k2 k1 k0)

/-- The one family of configurations on which the *upstream* C++ loop did not end: double-word mode
counted dimension 0 by two in a `u16`, and with `size0 = 0xFFFF` the counter stepped 0xFFFE → 0
without ever being `≥ size0` (see `dma_hangs_upstream`).  Not a hypothesis of any theorem about
the repaired code. -/
def Excluded (c : DmaChannel) : Prop := c.dwordMode ≠ 0 ∧ c.size0 = 0xFFFF
instance : DecidablePred Excluded := fun _ => inferInstanceAs (Decidable (_ ∧ _))

/-- static (configuration) part equal -/
def SameCfg (a b : DmaChannel) : Prop :=
  a.size0 = b.size0 ∧ a.size1 = b.size1 ∧ a.size2 = b.size2 ∧
  a.srcStep0 = b.srcStep0 ∧ a.srcStep1 = b.srcStep1 ∧ a.srcStep2 = b.srcStep2 ∧
  a.dstStep0 = b.dstStep0 ∧ a.dstStep1 = b.dstStep1 ∧ a.dstStep2 = b.dstStep2 ∧
  a.srcSpace = b.srcSpace ∧ a.dstSpace = b.dstSpace ∧ a.dwordMode = b.dwordMode ∧
  a.ahbmChannel = b.ahbmChannel ∧ a.addrSrcLow = b.addrSrcLow ∧ a.addrSrcHigh = b.addrSrcHigh ∧
  a.addrDstLow = b.addrDstLow ∧ a.addrDstHigh = b.addrDstHigh

/-- Loop invariant: after the ticks for all elements before `(k2,k1,k0)` the counters hold
`(k2,k1,k0)` (dimension 0 in units of one or two) and the cursors are the closed form. -/
structure Inv (c0 c : DmaChannel) (k2 k1 k0 : Nat) : Prop where
  cfg : SameCfg c c0
  h0 : c.counter0.toNat = (if c0.dwordMode ≠ 0 then 2 else 1) * k0
  h1 : c.counter1.toNat = k1
  h2 : c.counter2.toNat = k2
  src : c.currentSrc = srcAt c0 k2 k1 k0
  dst : c.currentDst = dstAt c0 k2 k1 k0
  run : c.running = 1
  b0 : k0 < c0.n0
  b1 : k1 < c0.n1
  b2 : k2 < c0.n2

private theorem n0_pos (c : DmaChannel) : 0 < c.n0 := by unfold n0; split <;> omega
private theorem n1_pos (c : DmaChannel) : 0 < c.n1 := by unfold n1; omega
private theorem n2_pos (c : DmaChannel) : 0 < c.n2 := by unfold n2; omega

private theorem add_step (b : U32) (x : Nat) (s : U16) :
    b + BitVec.ofNat 32 x + s.setWidth 32 = b + BitVec.ofNat 32 (x + s.toNat) := by
  rw [BitVec.add_assoc]; congr 1
  apply BitVec.eq_of_toNat_eq
  simp [BitVec.toNat_add, BitVec.toNat_setWidth]


private theorem cond0 (c : DmaChannel) (k0 : Nat)
    (ctr : U32) (h0 : ctr.toNat = (if c.dwordMode ≠ 0 then 2 else 1) * k0) (b0 : k0 < c.n0) :
    ((ctr + (if c.dwordMode ≠ 0 then 2 else 1) ≥ c.size0.setWidth 32) ↔ ¬ k0 + 1 < c.n0) ∧
    (ctr + (if c.dwordMode ≠ 0 then 2 else 1 : U32)).toNat = (if c.dwordMode ≠ 0 then 2 else 1) * (k0 + 1) := by
  unfold n0 at *
  have hs := c.size0.isLt
  by_cases hd : c.dwordMode = 0
  · simp only [hd, ne_eq, not_true_eq_false, if_false] at *
    constructor
    · constructor <;> intro h <;> bv_omega
    · bv_omega
  · simp only [hd, ne_eq, not_false_eq_true, if_true] at *
    constructor
    · constructor <;> intro h <;> bv_omega
    · bv_omega

private theorem cond1 (size : U16) (ctr : U32) (k : Nat) (h : ctr.toNat = k) (b : k < max size.toNat 1) :
    ((ctr + 1 ≥ size.setWidth 32) ↔ ¬ k + 1 < max size.toNat 1) ∧ (ctr + 1).toNat = k + 1 := by
  have hs := size.isLt
  constructor
  · constructor <;> intro h <;> bv_omega
  · bv_omega

private theorem sameCfg_advance (c : DmaChannel) : SameCfg (advance c) c := by
  by_cases h0 : c.counter0 + (if c.dwordMode ≠ 0 then 2 else 1) ≥ c.size0.setWidth 32
  · by_cases h1 : c.counter1 + 1 ≥ c.size1.setWidth 32
    · by_cases h2 : c.counter2 + 1 ≥ c.size2.setWidth 32
      · simp only [advance, h0, h1, h2, if_true, SameCfg, and_self]
      · simp only [advance, h0, h1, h2, if_true, if_false, SameCfg, and_self]
    · simp only [advance, h0, h1, if_true, if_false, SameCfg, and_self]
  · simp only [advance, h0, if_false, SameCfg, and_self]


/-- `counter0 += 1` / `counter0 += 2` in `u32`. -/
def ctr0' (c : DmaChannel) : U32 := c.counter0 + (if c.dwordMode ≠ 0 then 2 else 1)

private theorem advance_0 (c : DmaChannel) (h : ¬ ctr0' c ≥ c.size0.setWidth 32) :
    advance c = { c with counter0 := ctr0' c,
                         currentSrc := c.currentSrc + c.srcStep0.setWidth 32,
                         currentDst := c.currentDst + c.dstStep0.setWidth 32 } := by
  unfold ctr0' at h
  simp only [advance, h, if_false, ctr0']

private theorem advance_1 (c : DmaChannel) (h : ctr0' c ≥ c.size0.setWidth 32) (h1 : ¬ c.counter1 + 1 ≥ c.size1.setWidth 32) :
    advance c = { c with counter0 := 0, counter1 := c.counter1 + 1,
                         currentSrc := c.currentSrc + c.srcStep1.setWidth 32,
                         currentDst := c.currentDst + c.dstStep1.setWidth 32 } := by
  unfold ctr0' at h
  simp only [advance, h, h1, if_true, if_false]

private theorem advance_2 (c : DmaChannel) (h : ctr0' c ≥ c.size0.setWidth 32) (h1 : c.counter1 + 1 ≥ c.size1.setWidth 32)
    (h2 : ¬ c.counter2 + 1 ≥ c.size2.setWidth 32) :
    advance c = { c with counter0 := 0, counter1 := 0, counter2 := c.counter2 + 1,
                         currentSrc := c.currentSrc + c.srcStep2.setWidth 32,
                         currentDst := c.currentDst + c.dstStep2.setWidth 32 } := by
  unfold ctr0' at h
  simp only [advance, h, h1, h2, if_true, if_false]

private theorem advance_3 (c : DmaChannel) (h : ctr0' c ≥ c.size0.setWidth 32) (h1 : c.counter1 + 1 ≥ c.size1.setWidth 32)
    (h2 : c.counter2 + 1 ≥ c.size2.setWidth 32) :
    advance c = { c with counter0 := 0, counter1 := 0, counter2 := c.counter2 + 1, running := 0 } := by
  unfold ctr0' at h
  simp only [advance, h, h1, h2, if_true]

private theorem inv_step (c0 c : DmaChannel) (k2 k1 k0 : Nat) (h : Inv c0 c k2 k1 k0) :
    (k0 + 1 < c0.n0 → Inv c0 (advance c) k2 k1 (k0 + 1)) ∧
    (¬ k0 + 1 < c0.n0 → k1 + 1 < c0.n1 → Inv c0 (advance c) k2 (k1 + 1) 0) ∧
    (¬ k0 + 1 < c0.n0 → ¬ k1 + 1 < c0.n1 → k2 + 1 < c0.n2 → Inv c0 (advance c) (k2 + 1) 0 0) ∧
    (¬ k0 + 1 < c0.n0 → ¬ k1 + 1 < c0.n1 → ¬ k2 + 1 < c0.n2 → (advance c).running = 0) := by
  obtain ⟨cfg, h0, h1, h2, hs, hd, hr, b0, b1, b2⟩ := h
  have hcfg : SameCfg (advance c) c0 := by
    have := sameCfg_advance c
    unfold SameCfg at *; simp_all
  obtain ⟨e0, e1, e2, es0, es1, es2, ed0, ed1, ed2, esp, edp, edw, eah, e3, e4, e5, e6⟩ := cfg
  have C0 := cond0 c0 k0 c.counter0 h0 b0
  have C1 : (c.counter1 + 1 ≥ c0.size1.setWidth 32 ↔ ¬ k1 + 1 < c0.n1) ∧ (c.counter1 + 1).toNat = k1 + 1 :=
    cond1 c0.size1 c.counter1 k1 h1 b1
  have C2 : (c.counter2 + 1 ≥ c0.size2.setWidth 32 ↔ ¬ k2 + 1 < c0.n2) ∧ (c.counter2 + 1).toNat = k2 + 1 :=
    cond1 c0.size2 c.counter2 k2 h2 b2
  rw [← edw, ← e0] at C0
  rw [← e1] at C1
  rw [← e2] at C2
  change (ctr0' c ≥ c.size0.setWidth 32 ↔ _) ∧ (ctr0' c).toNat = _ at C0
  have hm0 : k0 + 1 = c0.n0 → k0 = c0.n0 - 1 := by omega
  have hm1 : k1 + 1 = c0.n1 → k1 = c0.n1 - 1 := by omega
  refine ⟨?_, ?_, ?_, ?_⟩
  · intro hk
    have ha := advance_0 c (fun h => (C0.1.mp h) hk)
    refine ⟨hcfg, ?_, ?_, ?_, ?_, ?_, ?_, hk, b1, b2⟩
    · rw [ha]; simp only []; rw [C0.2, edw]
    · rw [ha]; exact h1
    · rw [ha]; exact h2
    · rw [ha]; simp only []; rw [hs, srcAt, srcAt, add_step, elemOff_step0, es0]
    · rw [ha]; simp only []; rw [hd, dstAt, dstAt, add_step, elemOff_step0, ed0]
    · rw [ha]; exact hr
  · intro hk0 hk
    have ha := advance_1 c (C0.1.mpr hk0) (fun h => (C1.1.mp h) hk)
    have hk0' : k0 = c0.n0 - 1 := by omega
    refine ⟨hcfg, ?_, ?_, ?_, ?_, ?_, ?_, n0_pos c0, hk, b2⟩
    · rw [ha]; simp
    · rw [ha]; simp only []; exact C1.2
    · rw [ha]; exact h2
    · rw [ha]; simp only []; rw [hs, srcAt, srcAt, add_step, elemOff_step1, es1, hk0']
    · rw [ha]; simp only []; rw [hd, dstAt, dstAt, add_step, elemOff_step1, ed1, hk0']
    · rw [ha]; exact hr
  · intro hk0 hk1 hk
    have ha := advance_2 c (C0.1.mpr hk0) (C1.1.mpr hk1) (fun h => (C2.1.mp h) hk)
    have hk0' : k0 = c0.n0 - 1 := by omega
    have hk1' : k1 = c0.n1 - 1 := by omega
    have hn1 : c0.n1 - 1 + 1 = c0.n1 := by have := n1_pos c0; omega
    refine ⟨hcfg, ?_, ?_, ?_, ?_, ?_, ?_, n0_pos c0, n1_pos c0, hk⟩
    · rw [ha]; simp
    · rw [ha]; simp
    · rw [ha]; simp only []; exact C2.2
    · rw [ha]; simp only []; rw [hs, srcAt, srcAt, add_step, elemOff_step2, es2, hk0', hk1']
    · rw [ha]; simp only []; rw [hd, dstAt, dstAt, add_step, elemOff_step2, ed2, hk0', hk1']
    · rw [ha]; exact hr
  · intro hk0 hk1 hk2
    have ha := advance_3 c (C0.1.mpr hk0) (C1.1.mpr hk1) (C2.1.mpr hk2)
    rw [ha]

/-- The `(current_src, current_dst)` pairs at which `Tick` moves an element, for at most `fuel`
ticks (`advance` is the counter/cursor half of `Tick`; it does not depend on memory). -/
def trace : Nat → DmaChannel → List (U32 × U32)
  | 0, _ => []
  | f + 1, c => if c.running = 0 then [] else (c.currentSrc, c.currentDst) :: trace f (advance c)

/-- The loop `while (running) Tick` ends within `fuel` ticks. -/
def stops : Nat → DmaChannel → Prop
  | 0, c => c.running = 0
  | f + 1, c => c.running = 0 ∨ stops f (advance c)

/-- Source and destination cursor of element `(k2,k1,k0)`. -/
def elemAt (c : DmaChannel) (k2 k1 k0 : Nat) : U32 × U32 := (srcAt c k2 k1 k0, dstAt c k2 k1 k0)
/-- One dimension-0 stride. -/
def rowSpec (c : DmaChannel) (k2 k1 : Nat) : List (U32 × U32) := (List.range c.n0).map (elemAt c k2 k1)
/-- One dimension-1 stride of dimension-0 strides. -/
def planeSpec (c : DmaChannel) (k2 : Nat) : List (U32 × U32) := (List.range c.n1).flatMap (rowSpec c k2)
/-- **The documented element sequence**: for `k2 < n2`, `k1 < n1`, `k0 < n0` in lexicographic order
(zero sizes count as one; in double-word mode `n0 = ⌈size0 / 2⌉`), the closed-form source and
destination cursor of element `(k2,k1,k0)`. -/
def spec (c : DmaChannel) : List (U32 × U32) := (List.range c.n2).flatMap (planeSpec c)

/-- The part of `spec` from element `(k2,k1,k0)` on. -/
def tailSpec (c : DmaChannel) (k2 k1 k0 : Nat) : List (U32 × U32) :=
  (List.range' k0 (c.n0 - k0)).map (elemAt c k2 k1) ++
  ((List.range' (k1 + 1) (c.n1 - (k1 + 1))).flatMap (rowSpec c k2) ++
   (List.range' (k2 + 1) (c.n2 - (k2 + 1))).flatMap (planeSpec c))

private theorem range'_cons (s n : Nat) (h : 0 < n) : List.range' s n = s :: List.range' (s + 1) (n - 1) := by
  obtain ⟨m, rfl⟩ : ∃ m, n = m + 1 := ⟨n - 1, by omega⟩
  simp [List.range'_succ]

private theorem trace_stopped (f : Nat) (c : DmaChannel) (h : c.running = 0) : trace f c = [] := by
  cases f <;> simp [trace, h]

private theorem stops_stopped (f : Nat) (c : DmaChannel) (h : c.running = 0) : stops f c := by
  cases f <;> simp [stops, h]

private theorem trace_tail (c0 : DmaChannel) (fuel : Nat) :
    ∀ (c : DmaChannel) (k2 k1 k0 : Nat), Inv c0 c k2 k1 k0 →
      (tailSpec c0 k2 k1 k0).length ≤ fuel →
      trace fuel c = tailSpec c0 k2 k1 k0 ∧ stops fuel c := by
  induction fuel with
  | zero =>
    intro c k2 k1 k0 h hl
    have := h.b0
    rw [tailSpec, range'_cons k0 (c0.n0 - k0) (by omega)] at hl
    simp at hl
  | succ f ih =>
    intro c k2 k1 k0 h hl
    have hr : c.running ≠ 0 := by rw [h.run]; decide
    have hstep := inv_step c0 c k2 k1 k0 h
    have hb0 := h.b0; have hb1 := h.b1; have hb2 := h.b2
    have hhead : (c.currentSrc, c.currentDst) = elemAt c0 k2 k1 k0 := by rw [elemAt, h.src, h.dst]
    simp only [trace, hr, if_false, stops, false_or, hhead]
    by_cases hk0 : k0 + 1 < c0.n0
    · have hi := hstep.1 hk0
      have ht : tailSpec c0 k2 k1 k0 = elemAt c0 k2 k1 k0 :: tailSpec c0 k2 k1 (k0 + 1) := by
        rw [tailSpec, range'_cons k0 (c0.n0 - k0) (by omega), tailSpec]
        simp [Nat.sub_sub]
      rw [ht] at hl ⊢
      have := ih _ k2 k1 (k0 + 1) hi (by simpa using hl)
      exact ⟨by rw [this.1], this.2⟩
    · by_cases hk1 : k1 + 1 < c0.n1
      · have hi := hstep.2.1 hk0 hk1
        have ht : tailSpec c0 k2 k1 k0 = elemAt c0 k2 k1 k0 :: tailSpec c0 k2 (k1 + 1) 0 := by
          rw [tailSpec, range'_cons k0 (c0.n0 - k0) (by omega),
            range'_cons (k1 + 1) (c0.n1 - (k1 + 1)) (by omega), tailSpec]
          have : c0.n0 - k0 - 1 = 0 := by omega
          simp [this, rowSpec, List.range_eq_range', Nat.sub_sub]
        rw [ht] at hl ⊢
        have := ih _ k2 (k1 + 1) 0 hi (by simpa using hl)
        exact ⟨by rw [this.1], this.2⟩
      · by_cases hk2 : k2 + 1 < c0.n2
        · have hi := hstep.2.2.1 hk0 hk1 hk2
          have ht : tailSpec c0 k2 k1 k0 = elemAt c0 k2 k1 k0 :: tailSpec c0 (k2 + 1) 0 0 := by
            rw [tailSpec, range'_cons k0 (c0.n0 - k0) (by omega),
              range'_cons (k2 + 1) (c0.n2 - (k2 + 1)) (by omega), tailSpec]
            have h0 : c0.n0 - k0 - 1 = 0 := by omega
            have h1 : c0.n1 - (k1 + 1) = 0 := by omega
            have hp : planeSpec c0 (k2 + 1) = rowSpec c0 (k2 + 1) 0 ++
                (List.range' 1 (c0.n1 - 1)).flatMap (rowSpec c0 (k2 + 1)) := by
              rw [planeSpec, List.range_eq_range', range'_cons 0 c0.n1 (n1_pos c0)]
              simp
            simp [h0, h1, hp, rowSpec, List.range_eq_range', Nat.sub_sub]
          rw [ht] at hl ⊢
          have := ih _ (k2 + 1) 0 0 hi (by simpa using hl)
          exact ⟨by rw [this.1], this.2⟩
        · have hi := hstep.2.2.2 hk0 hk1 hk2
          have ht : tailSpec c0 k2 k1 k0 = [elemAt c0 k2 k1 k0] := by
            rw [tailSpec, range'_cons k0 (c0.n0 - k0) (by omega)]
            have h0 : c0.n0 - k0 - 1 = 0 := by omega
            have h1 : c0.n1 - (k1 + 1) = 0 := by omega
            have h2 : c0.n2 - (k2 + 1) = 0 := by omega
            simp [h0, h1, h2]
          rw [ht, trace_stopped f _ hi]
          exact ⟨rfl, stops_stopped f _ hi⟩

private theorem elemOff_zero (s0 s1 s2 m0 m1 : Nat) : elemOff s0 s1 s2 m0 m1 0 0 0 = 0 := by simp [elemOff]

private theorem inv_start (c : DmaChannel) : Inv c c.start 0 0 0 := by
  refine ⟨?_, ?_, ?_, ?_, ?_, ?_, ?_, n0_pos c, n1_pos c, n2_pos c⟩
  · simp [SameCfg, start]
  · simp [start]
  · simp [start]
  · simp [start]
  · simp [start, srcAt, srcBase, elemOff_zero]
  · simp [start, dstAt, dstBase, elemOff_zero]
  · simp [start]

private theorem spec_eq_tail (c : DmaChannel) : spec c = tailSpec c 0 0 0 := by
  rw [spec, tailSpec, List.range_eq_range', range'_cons 0 c.n2 (n2_pos c), List.flatMap_cons, planeSpec,
    List.range_eq_range', range'_cons 0 c.n1 (n1_pos c), List.flatMap_cons, rowSpec, List.range_eq_range']
  simp

private theorem length_flatMap_const {α β : Type} (l : List α) (f : α → List β) (m : Nat)
    (h : ∀ a, (f a).length = m) : (l.flatMap f).length = l.length * m := by
  induction l with
  | nil => simp
  | cons a l ih => simp [List.flatMap_cons, ih, h, Nat.add_mul, Nat.add_comm]

/-- The documented sequence has `n0·n1·n2` elements. -/
theorem spec_length (c : DmaChannel) : (spec c).length = c.ticksBound := by
  have hr : ∀ k2 k1, (rowSpec c k2 k1).length = c.n0 := by intro k2 k1; simp [rowSpec]
  have hp : ∀ k2, (planeSpec c k2).length = c.n1 * c.n0 := by
    intro k2; rw [planeSpec, length_flatMap_const _ _ _ (hr k2)]; simp
  rw [spec, length_flatMap_const _ _ _ hp, ticksBound]; simp
  grind

/-- **The transfer visits exactly the documented element sequence, in order, and then stops.**
For every configuration (all `size0/1/2`, `step0/1/2`, both modes), the cursor pairs
at which `Tick` moves an element, started by `Start`, are the closed-form list `spec c` — for any
fuel of at least `ticksBound c = n0·n1·n2` — and the loop has ended by then. -/
theorem dma_trace (c : DmaChannel) (fuel : Nat) (hf : c.ticksBound ≤ fuel) :
    trace fuel c.start = spec c ∧ stops fuel c.start := by
  have := trace_tail c fuel c.start 0 0 0 (inv_start c) (by rw [← spec_eq_tail, spec_length]; exact hf)
  rw [spec_eq_tail]; exact this

section
variable {M E : Type} [DspMem M] [ExtMem E]

/-- The element move of `Tick` at an explicit cursor pair. -/
def xferAt (c : DmaChannel) (w : World M E) (p : U32 × U32) : R (World M E) :=
  xfer { c with currentSrc := p.1, currentDst := p.2 } w

private theorem xfer_congr (a b : DmaChannel) (w : World M E)
    (h1 : a.dwordMode = b.dwordMode) (h2 : a.srcSpace = b.srcSpace) (h3 : a.dstSpace = b.dstSpace)
    (h4 : a.currentSrc = b.currentSrc) (h5 : a.currentDst = b.currentDst)
    (h6 : a.ahbmChannel = b.ahbmChannel) : xfer a w = xfer b w := by
  unfold xfer; rw [h1, h2, h3, h4, h5, h6]

private theorem xferAt_congr (a b : DmaChannel) (h : SameCfg a b) : @xferAt M E _ _ a = xferAt b := by
  obtain ⟨e0, e1, e2, es0, es1, es2, ed0, ed1, ed2, esp, edp, edw, eah, e3, e4, e5, e6⟩ := h
  funext w p
  exact xfer_congr _ _ w edw esp edp rfl rfl eah

private theorem xfer_eq_xferAt (c : DmaChannel) (w : World M E) :
    xfer c w = xferAt c w (c.currentSrc, c.currentDst) := rfl

/-- The loop of `DoDma` is the fold of the element move over the cursor trace. -/
theorem run_trace (fuel : Nat) : ∀ (c : DmaChannel) (w : World M E), stops fuel c →
    (run fuel c w).map Prod.snd = (trace fuel c).foldlM (xferAt c) w := by
  induction fuel with
  | zero => intro c w h; simp [stops] at h; simp [run, trace, h, Except.map, pure, Except.pure]
  | succ f ih =>
    intro c w h
    by_cases hr : c.running = 0
    · simp [run, trace, hr, Except.map, pure, Except.pure]
    · simp only [stops, hr, false_or] at h
      simp only [run, trace, hr, if_false, List.foldlM_cons, tick, xfer_eq_xferAt]
      cases hx : xferAt c w (c.currentSrc, c.currentDst) with
      | error e => simp [Except.map, bind, Except.bind]
      | ok w' =>
        simp only [bind, Except.bind]
        rw [ih _ w' h, xferAt_congr _ _ (sameCfg_advance c)]
end


/-- The only abort an operation can end in is `oob`. -/
def OnlyOob {α : Type} (r : R α) : Prop := ∀ e, r = .error e → e = .oob
private theorem OnlyOob.ok {α : Type} (a : α) : OnlyOob (.ok a : R α) := by intro e h; cases h
private theorem OnlyOob.pure {α : Type} (a : α) : OnlyOob (pure a : R α) := by intro e h; cases h
private theorem OnlyOob.oob {α : Type} : OnlyOob (.error .oob : R α) := by intro e h; cases h; rfl
private theorem OnlyOob.bind {α β : Type} {x : R α} {f : α → R β} (hx : OnlyOob x) (hf : ∀ a, OnlyOob (f a)) :
    OnlyOob (x >>= f) := by
  intro e h
  cases x with
  | error e' =>
    have h' : (Except.error e' : R β) = .error e := h
    injection h' with h'; subst h'; exact hx _ rfl
  | ok a => exact hf a e h
private theorem OnlyOob.ite {α : Type} {p : Prop} [Decidable p] {x y : R α} (hx : OnlyOob x) (hy : OnlyOob y) :
    OnlyOob (if p then x else y) := by split <;> assumption
private theorem OnlyOob.withCh {α : Type} (i : U16) (f : Nat → R α) (h : ∀ k, OnlyOob (f k)) :
    OnlyOob (Ahbm.withCh i f) := by unfold Ahbm.withCh; exact OnlyOob.ite (h _) OnlyOob.oob

section
variable {M E : Type} [DspMem M] [ExtMem E]
omit [ExtMem E] in
private theorem onlyOob_dspRead (w : World M E) (a : U32) : OnlyOob (dspRead w a) := by
  unfold dspRead; split
  · exact OnlyOob.ok _
  · exact OnlyOob.oob
omit [ExtMem E] in
private theorem onlyOob_dspWrite (w : World M E) (a : U32) (v : U16) : OnlyOob (dspWrite w a v) := by
  unfold dspWrite; split
  · exact OnlyOob.ok _
  · exact OnlyOob.oob

private theorem onlyOob_xfer (c : DmaChannel) (w : World M E) : OnlyOob (xfer c w) := by
  unfold xfer
  apply OnlyOob.ite
  · apply OnlyOob.bind
    · apply OnlyOob.ite
      · apply OnlyOob.bind (onlyOob_dspRead _ _); intro lo
        apply OnlyOob.bind (onlyOob_dspRead _ _); intro hi
        exact OnlyOob.pure _
      · apply OnlyOob.ite
        · apply OnlyOob.bind
          · exact OnlyOob.withCh _ _ (fun k => OnlyOob.ok _)
          · intro p; exact OnlyOob.pure _
        · exact OnlyOob.pure _
    · intro p
      apply OnlyOob.ite
      · apply OnlyOob.bind (onlyOob_dspWrite _ _ _); intro w2
        exact onlyOob_dspWrite _ _ _
      · apply OnlyOob.ite
        · apply OnlyOob.bind
          · exact OnlyOob.withCh _ _ (fun k => OnlyOob.ok _)
          · intro p; exact OnlyOob.pure _
        · exact OnlyOob.pure _
  · apply OnlyOob.bind
    · apply OnlyOob.ite
      · apply OnlyOob.bind (onlyOob_dspRead _ _); intro v
        exact OnlyOob.pure _
      · apply OnlyOob.ite
        · apply OnlyOob.bind
          · exact OnlyOob.withCh _ _ (fun k => OnlyOob.ok _)
          · intro p; exact OnlyOob.pure _
        · exact OnlyOob.pure _
    · intro p
      apply OnlyOob.ite
      · exact onlyOob_dspWrite _ _ _
      · apply OnlyOob.ite
        · apply OnlyOob.bind
          · exact OnlyOob.withCh _ _ (fun k => OnlyOob.ok _)
          · intro p; exact OnlyOob.pure _
        · exact OnlyOob.pure _

omit [DspMem M] [ExtMem E] in
private theorem onlyOob_foldlM {α : Type} (f : World M E → α → R (World M E)) (hf : ∀ w a, OnlyOob (f w a))
    (l : List α) : ∀ w, OnlyOob (l.foldlM f w) := by
  induction l with
  | nil => intro w; exact OnlyOob.pure _
  | cons a l ih => intro w; rw [List.foldlM_cons]; exact OnlyOob.bind (hf w a) ih
end

section
variable {M E : Type} [DspMem M] [ExtMem E]

private theorem sameCfg_start (c : DmaChannel) : SameCfg c.start c := by simp [SameCfg, start]

private theorem run_eq_fold (c : DmaChannel) (a : U16) (fuel : Nat) (hf : c.ticksBound ≤ fuel)
    (w : World M E) :
    (run fuel { c.start with ahbmChannel := a } w).map Prod.snd =
      (spec c).foldlM (xferAt { c with ahbmChannel := a }) w := by
  have ht := dma_trace { c with ahbmChannel := a } fuel hf
  have hr := run_trace fuel ({ c with ahbmChannel := a } : DmaChannel).start w ht.2
  rw [ht.1, xferAt_congr _ _ (sameCfg_start _)] at hr
  exact hr

private theorem doDma_unfold (d : Dma) (w : World M E) (ch : U16) (h : ch.toNat < 8) :
    d.doDma w ch =
      match run (d.channels[ch.toNat]).ticksBound
          { (d.channels[ch.toNat]).start with ahbmChannel := w.ahbm.getChannelForDma ch.toNat } w with
      | .ok (c', w') => .ok ({ d with channels := d.channels.set ch.toNat c' }, w', 1)
      | .error e => .error e := by
  unfold Dma.doDma Dma.doDmaFuel
  rw [dif_pos h, dif_pos h]
  rfl

/-- **A transfer is the in-order fold of element moves over the documented sequence.**  The world
(DSP memory, AHBM state, external memory, callback log) after `Dma::DoDma` is the left fold of
`xferAt` — the data-moving half of `Tick` at an explicit cursor pair — over `spec`, with the same
abort behaviour, and the interrupt count is 1.  Holds for every source/destination space. -/
theorem dma_run_eq_fold (d : Dma) (w : World M E) (ch : U16) (h : ch.toNat < 8) :
    (d.doDma w ch).map (fun r => r.2) =
      ((spec d.channels[ch.toNat]).foldlM
        (xferAt { d.channels[ch.toNat] with ahbmChannel := w.ahbm.getChannelForDma ch.toNat }) w).map (·, 1) := by
  rw [doDma_unfold d w ch h, ← run_eq_fold _ _ _ (Nat.le_refl _) w]
  cases run _ _ w with
  | error e => rfl
  | ok r => rfl

/-- **Termination.**  `Dma::DoDma` never runs out of the fuel `ticksBound = n0·n1·n2` the model
gives it: the result is never `hang` (it is `ok`, or `oob` from a DSP-side
address outside the array / an AHBM channel index ≥ 3). -/
theorem dma_terminates (d : Dma) (w : World M E) (ch : U16) (h : ch.toNat < 8) :
    d.doDma w ch ≠ .error .hang := by
  intro hh
  have := dma_run_eq_fold d w ch h
  rw [hh] at this
  have ho := onlyOob_foldlM (xferAt { d.channels[ch.toNat] with ahbmChannel := w.ahbm.getChannelForDma ch.toNat })
    (fun w p => onlyOob_xfer _ w) (spec d.channels[ch.toNat]) w
  cases hf : (spec d.channels[ch.toNat]).foldlM
      (xferAt { d.channels[ch.toNat] with ahbmChannel := w.ahbm.getChannelForDma ch.toNat }) w with
  | error e => rw [hf] at this; have := ho e hf; simp [Except.map] at *; simp_all
  | ok w' => rw [hf] at this; simp [Except.map] at this

/-- **The DMA interrupt is raised exactly once on completion**: whenever `Dma::DoDma` completes,
`interrupt_handler()` has been invoked exactly once (and a transfer that does not complete raises
none: an abort carries no interrupt count). -/
theorem dma_irq_once (d : Dma) (w : World M E) (ch : U16) (d' : Dma) (w' : World M E) (n : Nat)
    (h : d.doDma w ch = .ok (d', w', n)) : n = 1 := by
  by_cases hc : ch.toNat < 8
  · rw [doDma_unfold d w ch hc] at h
    split at h
    · injection h with h; simp at h; exact h.2.2.symm
    · cases h
  · simp [Dma.doDma, hc] at h

/-- Writing the control register starts nothing unless the value is the magic `0x40C0`: only `z`
changes, no interrupt. -/
theorem setZ_starts_only_on_magic (d : Dma) (w : World M E) (v : U16) (hv : v ≠ 0x40C0) :
    d.setZ w v = (d.setActive ({ · with z := v })).map (·, w, 0) := by
  unfold Dma.setZ
  cases d.setActive _ with
  | error e => rfl
  | ok d' => simp only [Except.map]; rw [if_neg hv]

/-- Writing `0x40C0` to the control register is `DoDma` of the active channel (after storing `z`). -/
theorem setZ_magic (d d1 : Dma) (w : World M E)
    (h : d.setActive ({ · with z := 0x40C0 }) = .ok d1) :
    d.setZ w 0x40C0 = d1.doDma w d1.activeChannel := by
  unfold Dma.setZ; rw [h]; simp
end

private theorem append_toNat (hi lo : BitVec 16) : (hi ++ lo).toNat = hi.toNat * 65536 + lo.toNat := by
  rw [BitVec.toNat_append, ← Nat.shiftLeft_add_eq_or_of_lt lo.isLt, Nat.shiftLeft_eq]
private theorem append_lo (hi lo : U16) : ((hi ++ lo : U32)).setWidth 16 = lo := by
  apply BitVec.eq_of_toNat_eq
  rw [BitVec.toNat_setWidth, append_toNat]
  have := lo.isLt
  omega
private theorem append_hi (hi lo : U16) : (((hi ++ lo : U32)) >>> 16).setWidth 16 = hi := by
  apply BitVec.eq_of_toNat_eq
  rw [BitVec.toNat_setWidth, BitVec.toNat_ushiftRight, append_toNat, Nat.shiftRight_eq_div_pow]
  have := lo.isLt; have := hi.isLt
  omega

/-! ## the defect that was present upstream (`u16` counters), kept as a proved witness -/

/-- Invariant of the non-terminating family of the upstream code: dimension-0 counter even and
below 2^16, still running. -/
def HangInv (c : DmaChannel) : Prop :=
  c.dwordMode ≠ 0 ∧ c.size0 = 0xFFFF ∧ c.counter0.toNat % 2 = 0 ∧ c.counter0.toNat < 0x10000 ∧ c.running = 1

private def hangStep (c : DmaChannel) : DmaChannel :=
  { c with counter0 := trunc16 (c.counter0 + 2),
           currentSrc := c.currentSrc + c.srcStep0.setWidth 32,
           currentDst := c.currentDst + c.dstStep0.setWidth 32 }

private theorem hangInv_advance (c : DmaChannel) (h : HangInv c) : HangInv (advanceUpstream c) := by
  obtain ⟨hd, hs, he, hl, hr⟩ := h
  have hc : ¬ (trunc16 (c.counter0 + 2) ≥ c.size0.setWidth 32) := by
    rw [hs]; unfold trunc16; bv_omega
  have ha : advanceUpstream c = hangStep c := by
    simp only [advanceUpstream, hd, ne_eq, not_false_eq_true, if_true, hc, if_false, hangStep]
  rw [ha]
  refine ⟨hd, hs, ?_, ?_, hr⟩
  · show (trunc16 (c.counter0 + 2)).toNat % 2 = 0
    unfold trunc16; bv_omega
  · show (trunc16 (c.counter0 + 2)).toNat < 0x10000
    unfold trunc16; bv_omega

private theorem hangInv_start (c : DmaChannel) (a : U16) (hx : Excluded c) :
    HangInv { c.start with ahbmChannel := a } := by
  obtain ⟨hd, hs⟩ := hx
  exact ⟨hd, hs, by simp [start], by simp [start], by simp [start]⟩

section
variable {M E : Type} [DspMem M] [ExtMem E]
private theorem run_hangs (fuel : Nat) : ∀ (c : DmaChannel) (w : World M E), HangInv c →
    ∀ r, runUpstream fuel c w ≠ .ok r := by
  induction fuel with
  | zero =>
    intro c w h r hr
    have hn : ¬ (c.running = 0) := by rw [h.2.2.2.2]; decide
    simp only [runUpstream] at hr
    rw [if_neg hn] at hr; cases hr
  | succ f ih =>
    intro c w h r hr
    have hn : ¬ (c.running = 0) := by rw [h.2.2.2.2]; decide
    simp only [runUpstream, hn, if_false] at hr
    cases hx : xfer c w with
    | error e => rw [hx] at hr; cases hr
    | ok w' => rw [hx] at hr; exact ih _ w' (hangInv_advance c h) r hr

/-- **The repaired defect, as a witness.**  With the upstream `u16` counters, a channel in
double-word mode with `size0 = 0xFFFF` never finished: `counter0 += 2` stepped 0xFFFE → 0 and was
never `≥ size0`, so for no amount of fuel did the upstream loop answer `ok` (`Dma::DoDma` did not
return and raised no interrupt).  The repaired `advance` (32-bit counters) is covered by
`dma_terminates` without exception. -/
theorem dma_hangs_upstream (c : DmaChannel) (a : U16) (hx : Excluded c) (fuel : Nat) (w : World M E) :
    ∀ r, runUpstream fuel { c.start with ahbmChannel := a } w ≠ .ok r :=
  run_hangs fuel _ w (hangInv_start c a hx)
end

section
variable {M E : Type} [DspMem M] [ExtMem E]

/-- One element copy inside DSP memory. -/
def copyElem (dword : Bool) (m : M) (p : U32 × U32) : R M :=
  if dword then
    match dspIndex (p.1 &&& 0xFFFFFFFE), dspIndex (p.1 ||| 1), dspIndex (p.2 &&& 0xFFFFFFFE),
        dspIndex (p.2 ||| 1) with
    | some sl, some sh, some dl, some dh =>
      .ok (DspMem.write (DspMem.write m dl (DspMem.read m sl)) dh (DspMem.read m sh))
    | _, _, _, _ => .error .oob
  else
    match dspIndex p.1, dspIndex p.2 with
    | some s, some d => .ok (DspMem.write m d (DspMem.read m s))
    | _, _ => .error .oob

private theorem xferAt_dsp (c : DmaChannel) (hs : c.srcSpace = 0) (hd : c.dstSpace = 0) (w : World M E)
    (p : U32 × U32) :
    xferAt c w p = (copyElem (decide (c.dwordMode ≠ 0)) w.mem p).map (fun m => { w with mem := m }) := by
  unfold xferAt xfer copyElem
  by_cases hw : c.dwordMode = 0
  · simp only [hw, hs, hd, ne_eq, not_true_eq_false, if_false, if_true, decide_false, dspRead, dspWrite,
      Bool.false_eq_true]
    cases dspIndex p.1 <;> cases dspIndex p.2 <;> rfl
  · simp only [hw, hs, hd, ne_eq, not_false_eq_true, if_true, decide_true, dspRead, dspWrite]
    cases dspIndex (p.1 &&& 0xFFFFFFFE) <;> cases dspIndex (p.1 ||| 1) <;>
      cases dspIndex (p.2 &&& 0xFFFFFFFE) <;> cases dspIndex (p.2 ||| 1) <;>
      simp [bind, Except.bind, pure, Except.pure, Except.map, append_lo, append_hi]
end

section
variable {M E : Type} [DspMem M] [ExtMem E]

private theorem foldlM_dsp (c : DmaChannel) (hs : c.srcSpace = 0) (hd : c.dstSpace = 0) (l : List (U32 × U32)) :
    ∀ w : World M E, l.foldlM (xferAt c) w =
      (l.foldlM (copyElem (decide (c.dwordMode ≠ 0))) w.mem).map (fun m => { w with mem := m }) := by
  induction l with
  | nil => intro w; rfl
  | cons p l ih =>
    intro w
    rw [List.foldlM_cons, List.foldlM_cons, xferAt_dsp c hs hd]
    cases copyElem (decide (c.dwordMode ≠ 0)) w.mem p with
    | error e => rfl
    | ok m => simp only [Except.map, bind, Except.bind]; rw [ih]; rfl

/-- **DSP→DSP: the final memory is the in-order fold of element copies over the documented
sequence** (so overlapping ranges behave like a sequential copy), nothing else in the world
changes, and the interrupt is raised once. -/
theorem dma_memory (d : Dma) (w : World M E) (ch : U16) (h : ch.toNat < 8)
    (hs : d.channels[ch.toNat].srcSpace = 0) (hd : d.channels[ch.toNat].dstSpace = 0) :
    (d.doDma w ch).map (fun r => r.2) =
      ((spec d.channels[ch.toNat]).foldlM (copyElem (decide (d.channels[ch.toNat].dwordMode ≠ 0))) w.mem).map
        (fun m => ({ w with mem := m }, 1)) := by
  rw [dma_run_eq_fold d w ch h,
    foldlM_dsp { d.channels[ch.toNat] with ahbmChannel := w.ahbm.getChannelForDma ch.toNat } hs hd]
  cases (spec d.channels[ch.toNat]).foldlM (copyElem (decide (d.channels[ch.toNat].dwordMode ≠ 0))) w.mem <;> rfl

/-- Array indices written by one element copy. -/
def writtenBy (dword : Bool) (p : U32 × U32) : List (Option U32) :=
  if dword then [dspIndex (p.2 &&& 0xFFFFFFFE), dspIndex (p.2 ||| 1)] else [dspIndex p.2]

omit [ExtMem E] in
/-- One element copy changes only its destination indices. -/
theorem copyElem_frame (dword : Bool) (m m' : M) (p : U32 × U32) (h : copyElem dword m p = .ok m')
    (a : U32) (ha : some a ∉ writtenBy dword p) : DspMem.read m' a = DspMem.read m a := by
  unfold copyElem at h
  unfold writtenBy at ha
  cases dword with
  | false =>
    simp only [Bool.false_eq_true, if_false] at h ha
    split at h
    · rename_i s dd h1 h2
      injection h with h; subst h
      rw [h2] at ha
      apply DspMem.read_write_other
      intro heq; apply ha; simp [heq]
    · cases h
  | true =>
    simp only [if_true] at h ha
    split at h
    · rename_i sl sh dl dh h1 h2 h3 h4
      injection h with h; subst h
      rw [h3, h4] at ha
      rw [DspMem.read_write_other, DspMem.read_write_other]
      · intro heq; apply ha; simp [heq]
      · intro heq; apply ha; simp [heq]
    · cases h

omit [ExtMem E] in
/-- **Frame: no other memory changes.**  After the fold of element copies every array index that is
not a destination index of some element of the sequence holds its old value. -/
theorem dma_memory_frame (dword : Bool) (l : List (U32 × U32)) : ∀ (m m' : M),
    l.foldlM (copyElem dword) m = .ok m' →
    ∀ a : U32, (∀ p ∈ l, some a ∉ writtenBy dword p) → DspMem.read m' a = DspMem.read m a := by
  induction l with
  | nil => intro m m' h a _; injection h with h; rw [h]
  | cons p l ih =>
    intro m m' h a ha
    rw [List.foldlM_cons] at h
    cases h1 : copyElem dword m p with
    | error e => rw [h1] at h; cases h
    | ok m1 =>
      rw [h1] at h
      rw [ih m1 m' h a (fun q hq => ha q (List.mem_cons_of_mem _ hq)),
        copyElem_frame dword m m1 p h1 a (ha p (List.mem_cons_self ..))]
end


/-! ## the documented example of `dma.md`, and non-vacuity -/

/-- The configuration of the worked example in `src/dma.md`. -/
def docExample : DmaChannel :=
  { size0 := 3, size1 := 5, size2 := 2, srcStep0 := 2, srcStep1 := 1, srcStep2 := 7,
    dstStep0 := 1, dstStep1 := 1, dstStep2 := 1 }

/-- `spec` reproduces the address list printed in `dma.md`. -/
theorem spec_docExample :
    (spec docExample).map (·.1.toNat) =
      [0, 2, 4, 5, 7, 9, 10, 12, 14, 15, 17, 19, 20, 22, 24,
       31, 33, 35, 36, 38, 40, 41, 43, 45, 46, 48, 50, 51, 53, 55] := by decide

example : docExample.ticksBound = 30 := by decide
example : trace 30 docExample.start = spec docExample := (dma_trace docExample 30 (by decide)).1
/-- zero sizes count as one; double-word mode counts dimension 0 by two (`size0 = 5` → 3 elements). -/
example : (spec { size0 := 0, size1 := 0, size2 := 0 }).length = 1 ∧
    (spec { size0 := 5, size1 := 2, dwordMode := 1 }).length = 6 := by decide
/-- steps are unsigned: a step of 0xFFFF moves the cursor *up* by 65535. -/
example : (spec { size0 := 2, srcStep0 := 0xFFFF, addrSrcLow := 1 }).map (·.1.toNat) = [1, 0x10000] := by decide
/-- the closed form at the two largest double-word sizes: `size0 = 0xFFFF` is 0x8000 elements per
dimension-0 stride, `size0 = 0xFFFE` is 0x7FFF. -/
example : ({ dwordMode := 1, size0 := 0xFFFF } : DmaChannel).ticksBound = 0x8000 ∧
    ({ dwordMode := 1, size0 := 0xFFFE } : DmaChannel).ticksBound = 0x7FFF ∧
    ({ dwordMode := 1, size0 := 0xFFFF, size1 := 3, size2 := 2 } : DmaChannel).ticksBound = 0x30000 := by decide
/-- the last tick of such a stride, repaired code: 0xFFFE + 2 = 0x10000 ≥ 0xFFFF ends the stride
(and here the transfer) … -/
example : (advance { dwordMode := 1, size0 := 0xFFFF, counter0 := 0xFFFE, running := 1 }).counter0 = 0 ∧
    (advance { dwordMode := 1, size0 := 0xFFFF, counter0 := 0xFFFE, running := 1 }).running = 0 := by decide
/-- … where the upstream `u16` counter wrapped to 0 and kept running. -/
example : Excluded { dwordMode := 1, size0 := 0xFFFF } ∧
    (advanceUpstream { dwordMode := 1, size0 := 0xFFFF, counter0 := 0xFFFE, running := 1 }).counter0 = 0 ∧
    (advanceUpstream { dwordMode := 1, size0 := 0xFFFF, counter0 := 0xFFFE, running := 1 }).running = 1 := by
  decide
/-- off the excluded family the upstream and the repaired counter step agree, e.g. at the largest
terminating upstream size. -/
example : advanceUpstream { dwordMode := 1, size0 := 0xFFFE, counter0 := 0xFFFC, running := 1 } =
    advance { dwordMode := 1, size0 := 0xFFFE, counter0 := 0xFFFC, running := 1 } := by decide

/-! ## AHBM: unit-exact accesses and burst transparency -/
namespace AhbmChannel

private theorem and_not_mask (a m : U32) (h : a &&& m = 0) : a &&& ~~~m = a := by
  have : a &&& ~~~m = (a &&& ~~~m) ||| (a &&& m) := by rw [h]; simp
  rw [this, ← BitVec.and_or_distrib_left, BitVec.not_or_self, BitVec.and_allOnes]

private theorem even_and_one (a : U32) (h : a.toNat % 2 = 0) : a &&& 1#32 = 0#32 := by
  apply BitVec.eq_of_toNat_eq
  have := @Nat.and_two_pow_sub_one_eq_mod a.toNat 1
  simp [BitVec.toNat_and] at *
  omega
private theorem aligned4_and_three (a : U32) (h : a.toNat % 4 = 0) : a &&& 3#32 = 0#32 := by
  apply BitVec.eq_of_toNat_eq
  have := @Nat.and_two_pow_sub_one_eq_mod a.toNat 2
  simp [BitVec.toNat_and] at *
  omega
private theorem mask_even (a : U32) (h : a.toNat % 2 = 0) : a &&& 4294967294#32 = a :=
  and_not_mask a 1 (even_and_one a h)
private theorem mask_aligned4 (a : U32) (h : a.toNat % 4 = 0) : a &&& 4294967292#32 = a :=
  and_not_mask a 3 (aligned4_and_three a h)
private theorem and_ffff (v : U16) : (v.setWidth 32 : U32) &&& 65535#32 = v.setWidth 32 := by
  apply BitVec.eq_of_toNat_eq
  have h1 := @Nat.and_two_pow_sub_one_eq_mod v.toNat 16
  have h2 := v.isLt
  have h3 : v.toNat % 4294967296 = v.toNat := Nat.mod_eq_of_lt (by omega)
  simp [BitVec.toNat_and, h3] at *
  omega

/-- **A 16-bit unit at an even address, bursts off: `Write16` performs exactly one external access —
a 16-bit write of exactly that value at exactly that address.**  (The burst queue must be empty,
as it is after reset and after every complete burst.) -/
theorem aligned_unit_exact_write16 (c : AhbmChannel) (hu : c.unitSize = 1) (hb : c.burstSize = 0)
    (hq : c.burstQueue = []) (a : U32) (ha : a.toNat % 2 = 0) (v : U16) :
    c.write16 a v = ({ c with writeBurstStart := a }, [⟨.write, 16, a, v.setWidth 32⟩]) := by
  simp [write16, writeInternal, hq, getBurstSize, hb, hu, flush, flushOne, mask_even a ha, and_ffff]

/-- **A 32-bit unit at a 4-aligned address, bursts off: `Write32` performs exactly one external
access — a 32-bit write of exactly that value at exactly that address.** -/
theorem aligned_unit_exact_write32 (c : AhbmChannel) (hu : c.unitSize = 2) (hb : c.burstSize = 0)
    (hq : c.burstQueue = []) (a : U32) (ha : a.toNat % 4 = 0) (v : U32) :
    c.write32 a v = ({ c with writeBurstStart := a }, [⟨.write, 32, a, v⟩]) := by
  have h1 : ¬ (a &&& 1#32 = 1#32) := by
    rw [even_and_one a (by omega)]; decide
  have h2 : a ≤ a + 1#32 ∧ a ≤ a + 2#32 := by constructor <;> bv_omega
  simp [write32, writeInternal, hq, getBurstSize, hb, hu, flush, flushOne, mask_aligned4 a ha, h1, h2]

/-- **A 16-bit unit at an even address, bursts off: `Read16` performs exactly one external access —
a 16-bit read at exactly that address — returns exactly its value and leaves the channel as it was.** -/
theorem aligned_unit_exact_read16 (rd : ExtRead) (c : AhbmChannel) (hu : c.unitSize = 1) (hb : c.burstSize = 0)
    (hq : c.burstQueue = []) (a : U32) (ha : a.toNat % 2 = 0) :
    c.read16 rd a = (c, rd.read16 a, [⟨.read, 16, a, (rd.read16 a).setWidth 32⟩]) := by
  have h1 := even_and_one a ha
  simp [read16, read32, hq, getBurstSize, hb, hu, fill, fillOne, mask_even a ha, h1]
  cases c; simp_all

/-- **A 32-bit unit at a 4-aligned address, bursts off: `Read32` performs exactly one external
access — a 32-bit read at exactly that address — and returns exactly its value.** -/
theorem aligned_unit_exact_read32 (rd : ExtRead) (c : AhbmChannel) (hu : c.unitSize = 2) (hb : c.burstSize = 0)
    (hq : c.burstQueue = []) (a : U32) (ha : a.toNat % 4 = 0) :
    c.read32 rd a = (c, rd.read32 a, [⟨.read, 32, a, rd.read32 a⟩]) := by
  simp [read32, hq, getBurstSize, hb, hu, fill, fillOne, mask_aligned4 a ha]
  cases c; simp_all

/-- Bytes per unit: what the AHBM advances its own cursor by inside a burst. -/
def unitBytes (u : U16) : U32 := if u = 0 then 1 else if u = 1 then 2 else if u = 2 then 4 else 0

/-- `vs.length` calls of `WriteInternal` at addresses `a, a+step, a+2·step, …`. -/
def writeSeq (c : AhbmChannel) (a step : U32) : List U32 → AhbmChannel × List ExtEvent
  | [] => (c, [])
  | v :: vs =>
    let r := c.writeInternal a v
    let r2 := writeSeq r.1 (a + step) step vs
    (r2.1, r.2 ++ r2.2)

private theorem flushOne_next (u : U16) (cur v : U32) : (flushOne u cur v).1 = cur + unitBytes u := by
  unfold flushOne unitBytes
  by_cases h0 : u = 0
  · simp [h0]
  by_cases h1 : u = 1
  · simp [h1]; split <;> rfl
  by_cases h2 : u = 2
  · simp [h2]; split
    · rfl
    · split <;> rfl
  · simp_all

private theorem flush_cons (u : U16) (a v : U32) (vs : List U32) :
    flush u a (v :: vs) = (flushOne u a v).2 ++ flush u (a + unitBytes u) vs := by
  simp only [flush]; rw [flushOne_next]

/-- The flush loop advances its own cursor by the unit size. -/
theorem flush_append (u : U16) (xs ys : List U32) : ∀ a : U32,
    flush u a (xs ++ ys) = flush u a xs ++ flush u (a + BitVec.ofNat 32 xs.length * unitBytes u) ys := by
  induction xs with
  | nil => intro a; simp [flush]
  | cons x xs ih =>
    intro a
    rw [List.cons_append, flush_cons, flush_cons, ih, List.append_assoc]
    congr 3
    simp only [List.length_cons]
    rw [BitVec.add_assoc]; congr 1
    rw [show BitVec.ofNat 32 (xs.length + 1) = BitVec.ofNat 32 xs.length + 1#32 from by
      apply BitVec.eq_of_toNat_eq; simp [BitVec.toNat_add]]
    rw [BitVec.add_mul, BitVec.one_mul, BitVec.add_comm]

private theorem writeSeq_append (step : U32) (xs ys : List U32) : ∀ (c : AhbmChannel) (a : U32),
    writeSeq c a step (xs ++ ys) =
      ((writeSeq (writeSeq c a step xs).1 (a + BitVec.ofNat 32 xs.length * step) step ys).1,
       (writeSeq c a step xs).2 ++
       (writeSeq (writeSeq c a step xs).1 (a + BitVec.ofNat 32 xs.length * step) step ys).2) := by
  induction xs with
  | nil => intro c a; simp [writeSeq]
  | cons x xs ih =>
    intro c a
    simp only [List.cons_append, writeSeq, ih, List.length_cons, List.append_assoc]
    have : a + step + BitVec.ofNat 32 xs.length * step = a + BitVec.ofNat 32 (xs.length + 1) * step := by
      rw [show BitVec.ofNat 32 (xs.length + 1) = BitVec.ofNat 32 xs.length + 1#32 from by
        apply BitVec.eq_of_toNat_eq; simp [BitVec.toNat_add]]
      rw [BitVec.add_mul, BitVec.one_mul, BitVec.add_assoc, BitVec.add_comm step]
    rw [this]

private theorem getBurstSize_pos (c : AhbmChannel) : 0 < c.getBurstSize := by
  unfold getBurstSize; repeat' split
  all_goals omega

/-- The channel after a push that does not flush. -/
def pushed (c : AhbmChannel) (a v : U32) : AhbmChannel :=
  { c with burstQueue := c.burstQueue ++ [v],
           writeBurstStart := if c.burstQueue = [] then a else c.writeBurstStart }

/-- The channel after a push that flushes. -/
def flushed (c : AhbmChannel) (a : U32) : AhbmChannel :=
  { c with burstQueue := [], writeBurstStart := if c.burstQueue = [] then a else c.writeBurstStart }

private theorem pushed_getBurstSize (c : AhbmChannel) (a v : U32) : (pushed c a v).getBurstSize = c.getBurstSize := rfl

/-- `Ahbm::WriteInternal` in closed form: push; flush from the address of the first push of the
burst once the queue holds a full burst. -/
theorem writeInternal_eq (c : AhbmChannel) (a v : U32) :
    c.writeInternal a v =
      if c.burstQueue.length + 1 ≥ c.getBurstSize then
        (flushed c a, flush c.unitSize (if c.burstQueue = [] then a else c.writeBurstStart) (c.burstQueue ++ [v]))
      else (pushed c a v, []) := by
  unfold writeInternal pushed flushed
  cases hq : c.burstQueue with
  | nil =>
    simp only [List.isEmpty_nil, if_true, List.nil_append, List.length_cons, List.length_nil]
    rfl
  | cons x xs =>
    simp only [List.isEmpty_cons, Bool.false_eq_true, if_false, List.length_append, List.length_cons,
      List.length_nil, hq]
    rfl

/-- Filling the queue up to the burst length: nothing is emitted until the last push, which
flushes the whole queue from the address of the first push. -/
private theorem writeSeq_fill (step : U32) (vs : List U32) : ∀ (c : AhbmChannel) (a : U32), vs ≠ [] →
    c.burstQueue.length + vs.length = c.getBurstSize →
    writeSeq c a step vs =
      (flushed c a, flush c.unitSize (if c.burstQueue = [] then a else c.writeBurstStart) (c.burstQueue ++ vs)) := by
  induction vs with
  | nil => intro c a h; exact absurd rfl h
  | cons v vs ih =>
    intro c a _ hl
    simp only [List.length_cons] at hl
    by_cases hvs : vs = []
    · subst hvs
      simp only [List.length_nil] at hl
      simp only [writeSeq, writeInternal_eq]
      rw [if_pos (by omega)]
      simp
    · have hlen : 0 < vs.length := List.length_pos_iff.mpr hvs
      simp only [writeSeq, writeInternal_eq]
      rw [if_neg (by omega)]
      rw [ih _ (a + step) hvs (by rw [pushed_getBurstSize]; simp [pushed]; omega)]
      simp [pushed, flushed, List.append_assoc]

private theorem writeSeq_bursts (k : Nat) : ∀ (vs : List U32) (c : AhbmChannel) (a : U32),
    c.burstQueue = [] → vs.length = c.getBurstSize * k →
    (writeSeq c a (unitBytes c.unitSize) vs).2 = flush c.unitSize a vs ∧
    (writeSeq c a (unitBytes c.unitSize) vs).1.burstQueue = [] ∧
    (writeSeq c a (unitBytes c.unitSize) vs).1.unitSize = c.unitSize ∧
    (writeSeq c a (unitBytes c.unitSize) vs).1.burstSize = c.burstSize := by
  induction k with
  | zero =>
    intro vs c a hq hl
    have : vs = [] := List.eq_nil_of_length_eq_zero (by simpa using hl)
    subst this
    simp [writeSeq, flush, hq]
  | succ k ih =>
    intro vs c a hq hl
    have hL := getBurstSize_pos c
    have hlen : c.getBurstSize ≤ vs.length := by rw [hl, Nat.mul_succ]; omega
    have hx : (vs.take c.getBurstSize).length = c.getBurstSize := by simp [List.length_take]; omega
    have hy : (vs.drop c.getBurstSize).length = c.getBurstSize * k := by
      simp [List.length_drop, hl, Nat.mul_succ]
    have hxne : vs.take c.getBurstSize ≠ [] := by
      intro h; rw [h] at hx; simp at hx; omega
    have hfill := writeSeq_fill (unitBytes c.unitSize) (vs.take c.getBurstSize) c a hxne (by rw [hq, hx]; simp)
    have hrec := ih (vs.drop c.getBurstSize) (flushed c a)
      (a + BitVec.ofNat 32 (vs.take c.getBurstSize).length * unitBytes c.unitSize) rfl hy
    have hsplit : vs = vs.take c.getBurstSize ++ vs.drop c.getBurstSize := (List.take_append_drop _ _).symm
    rw [hsplit, writeSeq_append, hfill]
    simp only [hq, if_true, List.nil_append]
    refine ⟨?_, hrec.2.1, hrec.2.2.1, hrec.2.2.2⟩
    rw [flush_append]
    exact congrArg _ hrec.1

/-- **Write bursts are transparent.**  On a channel whose burst queue is empty, writing
`vs.length` units at consecutive addresses `a, a + unitBytes, …` with a burst length that divides
the number of units produces exactly the external accesses (same kinds, widths, addresses,
values, order) as the same writes with bursts off, and leaves the queue empty again. -/
theorem burst_transparent_write (c : AhbmChannel) (hq : c.burstQueue = []) (a : U32) (vs : List U32)
    (hdiv : vs.length % c.getBurstSize = 0) :
    (writeSeq c a (unitBytes c.unitSize) vs).2 =
      (writeSeq { c with burstSize := 0 } a (unitBytes c.unitSize) vs).2 ∧
    (writeSeq c a (unitBytes c.unitSize) vs).1.burstQueue = [] ∧
    (writeSeq { c with burstSize := 0 } a (unitBytes c.unitSize) vs).1.burstQueue = [] := by
  have h1 := writeSeq_bursts (vs.length / c.getBurstSize) vs c a hq
    (by rw [Nat.mul_comm]; exact (Nat.div_mul_cancel (Nat.dvd_of_mod_eq_zero hdiv)).symm)
  have h2 := writeSeq_bursts vs.length vs { c with burstSize := 0 } a hq (by simp [getBurstSize])
  exact ⟨by rw [h1.1]; exact h2.1.symm, h1.2.1, h2.2.1⟩

/-- `n` calls of `Read32` at addresses `a, a+step, …`: final channel, returned values, events. -/
def readSeq (rd : ExtRead) (c : AhbmChannel) (a step : U32) : Nat → AhbmChannel × List U32 × List ExtEvent
  | 0 => (c, [], [])
  | n + 1 =>
    let r := c.read32 rd a
    let r2 := readSeq rd r.1 (a + step) step n
    (r2.1, r.2.1 :: r2.2.1, r.2.2 ++ r2.2.2)

private theorem fillOne_next (rd : ExtRead) (u : U16) (cur : U32) : (fillOne rd u cur).2.1 = cur + unitBytes u := by
  unfold fillOne unitBytes
  by_cases h0 : u = 0
  · simp [h0]
  by_cases h1 : u = 1
  · simp [h1]
  by_cases h2 : u = 2
  · simp [h2]
  · simp_all

private theorem fill_succ (rd : ExtRead) (u : U16) (n : Nat) (a : U32) :
    fill rd u (n + 1) a =
      ((fillOne rd u a).1 :: (fill rd u n (a + unitBytes u)).1,
       (fillOne rd u a).2.2 ++ (fill rd u n (a + unitBytes u)).2) := by
  simp only [fill]; rw [fillOne_next]

private theorem fill_length (rd : ExtRead) (u : U16) (n : Nat) : ∀ a, (fill rd u n a).1.length = n := by
  induction n with
  | zero => intro a; rfl
  | succ n ih => intro a; rw [fill_succ]; simp [ih]

private theorem ofNat_succ_mul (n : Nat) (s : U32) :
    BitVec.ofNat 32 (n + 1) * s = s + BitVec.ofNat 32 n * s := by
  rw [show BitVec.ofNat 32 (n + 1) = BitVec.ofNat 32 n + 1#32 from by
    apply BitVec.eq_of_toNat_eq; simp [BitVec.toNat_add]]
  rw [BitVec.add_mul, BitVec.one_mul, BitVec.add_comm]

/-- The prefetch loop advances its own cursor by the unit size. -/
theorem fill_add (rd : ExtRead) (u : U16) (n m : Nat) : ∀ a,
    fill rd u (n + m) a =
      ((fill rd u n a).1 ++ (fill rd u m (a + BitVec.ofNat 32 n * unitBytes u)).1,
       (fill rd u n a).2 ++ (fill rd u m (a + BitVec.ofNat 32 n * unitBytes u)).2) := by
  induction n with
  | zero => intro a; simp [fill]
  | succ n ih =>
    intro a
    rw [show n + 1 + m = (n + m) + 1 from by omega, fill_succ, fill_succ, ih, ofNat_succ_mul,
      BitVec.add_assoc]
    simp [List.append_assoc]

private theorem readSeq_pop (rd : ExtRead) (step : U32) (n : Nat) : ∀ (c : AhbmChannel) (a : U32),
    n ≤ c.burstQueue.length →
    readSeq rd c a step n = ({ c with burstQueue := c.burstQueue.drop n }, c.burstQueue.take n, []) := by
  induction n with
  | zero => intro c a _; simp [readSeq]
  | succ n ih =>
    intro c a hl
    cases hq : c.burstQueue with
    | nil => rw [hq] at hl; simp at hl
    | cons v q =>
      have hr : c.read32 rd a = ({ c with burstQueue := q }, v, []) := by
        simp [read32, hq]
      simp only [readSeq, hr]
      rw [ih _ _ (by rw [hq] at hl; simpa using hl)]
      simp

private theorem readSeq_fill (rd : ExtRead) (c : AhbmChannel) (hq : c.burstQueue = []) (a step : U32) :
    readSeq rd c a step c.getBurstSize =
      (c, (fill rd c.unitSize c.getBurstSize a).1, (fill rd c.unitSize c.getBurstSize a).2) := by
  obtain ⟨l, hl⟩ : ∃ l, c.getBurstSize = l + 1 := ⟨c.getBurstSize - 1, by have := getBurstSize_pos c; omega⟩
  rw [hl]
  have hlen := fill_length rd c.unitSize (l + 1) a
  cases hf : fill rd c.unitSize (l + 1) a with
  | mk vs ev =>
    rw [hf] at hlen
    cases vs with
    | nil => simp at hlen
    | cons v rest =>
      have hr : c.read32 rd a = ({ c with burstQueue := rest }, v, ev) := by
        simp [read32, hq, hl, hf]
      simp only [readSeq, hr]
      rw [readSeq_pop rd step l _ _ (by simp at hlen ⊢; omega)]
      simp only [List.length_cons, Nat.add_right_cancel_iff] at hlen
      simp [← hlen]
      cases c; simp_all

private theorem readSeq_add (rd : ExtRead) (step : U32) (n m : Nat) : ∀ (c : AhbmChannel) (a : U32),
    readSeq rd c a step (n + m) =
      ((readSeq rd (readSeq rd c a step n).1 (a + BitVec.ofNat 32 n * step) step m).1,
       (readSeq rd c a step n).2.1 ++ (readSeq rd (readSeq rd c a step n).1 (a + BitVec.ofNat 32 n * step) step m).2.1,
       (readSeq rd c a step n).2.2 ++ (readSeq rd (readSeq rd c a step n).1 (a + BitVec.ofNat 32 n * step) step m).2.2) := by
  induction n with
  | zero => intro c a; simp [readSeq]
  | succ n ih =>
    intro c a
    rw [show n + 1 + m = (n + m) + 1 from by omega]
    simp only [readSeq, ih, ofNat_succ_mul, BitVec.add_assoc, List.cons_append, List.append_assoc]

private theorem readSeq_bursts (rd : ExtRead) (c : AhbmChannel) (hq : c.burstQueue = []) (k : Nat) : ∀ a : U32,
    readSeq rd c a (unitBytes c.unitSize) (c.getBurstSize * k) =
      (c, (fill rd c.unitSize (c.getBurstSize * k) a).1, (fill rd c.unitSize (c.getBurstSize * k) a).2) := by
  induction k with
  | zero => intro a; simp [readSeq, fill]
  | succ k ih =>
    intro a
    rw [Nat.mul_succ, Nat.add_comm, readSeq_add, readSeq_fill rd c hq, fill_add]
    simp only [ih]

/-- **Read bursts are transparent.**  On a channel whose burst queue is empty, `n` reads of one
unit each at consecutive addresses `a, a + unitBytes, …`, with a burst length dividing `n`, return
the same values and perform the same external accesses in the same order as the same reads with
bursts off (the external memory being the same function throughout), and leave the channel as it
was. -/
theorem burst_transparent_read (rd : ExtRead) (c : AhbmChannel) (hq : c.burstQueue = []) (a : U32) (n : Nat)
    (hdiv : n % c.getBurstSize = 0) :
    (readSeq rd c a (unitBytes c.unitSize) n).2 =
      (readSeq rd { c with burstSize := 0 } a (unitBytes c.unitSize) n).2 ∧
    (readSeq rd c a (unitBytes c.unitSize) n).1 = c := by
  have hn : n = c.getBurstSize * (n / c.getBurstSize) := by
    rw [Nat.mul_comm]; exact (Nat.div_mul_cancel (Nat.dvd_of_mod_eq_zero hdiv)).symm
  have h1 := readSeq_bursts rd c hq (n / c.getBurstSize) a
  rw [← hn] at h1
  have h2 := readSeq_bursts rd { c with burstSize := 0 } hq n a
  have hg : ({ c with burstSize := 0 } : AhbmChannel).getBurstSize = 1 := by simp [getBurstSize]
  rw [hg, Nat.one_mul] at h2
  rw [h1, h2]
  exact ⟨rfl, rfl⟩

/-! ## the excluded points of burst transparency, as proved examples (**findings**) -/

/-- A burst that is not completed is never written: three 16-bit writes with burst ×4 produce no
external access at all and stay in the queue — if the transfer ends here the data is lost, and
the next transfer on this channel starts with a non-empty queue. -/
theorem burst_tail_lost :
    writeSeq { unitSize := 1, burstSize := 1 } 0x100 2 [0x11, 0x22, 0x33] =
      ({ unitSize := 1, burstSize := 1, burstQueue := [0x11, 0x22, 0x33], writeBurstStart := 0x100 }, []) := by
  decide

/-- A read burst prefetches a whole burst; after three reads one prefetched unit is left in the
queue, and the next read — at any address — returns that stale unit without touching memory. -/
theorem burst_tail_stale :
    let rd : ExtRead := ⟨fun _ => 0, fun a => a.setWidth 16, fun a => a⟩
    let c : AhbmChannel := { unitSize := 1, burstSize := 1 }
    (readSeq rd c 0x100 2 3).1.burstQueue = [0x106] ∧
    ((readSeq rd c 0x100 2 3).1.read32 rd 0x5000).2 = (0x106, []) := by
  decide

/-- External→external through one AHBM channel with bursts on: the read prefetch and the write
buffer are the same queue.  The first element's write finds the queue non-empty, so
`write_burst_start` is *not* set to the destination: the prefetched words are written from the
stale start address (0 after reset), not to 0x2000. -/
theorem ext_to_ext_burst_misplaced :
    let rd : ExtRead := ⟨fun _ => 0, fun a => a.setWidth 16, fun a => a⟩
    let c : AhbmChannel := { unitSize := 1, burstSize := 1 }
    let r := c.read16 rd 0x100
    (r.1.write16 0x2000 r.2.1).2 =
      [⟨.write, 16, 0, 0x102⟩, ⟨.write, 16, 2, 0x104⟩, ⟨.write, 16, 4, 0x106⟩, ⟨.write, 16, 6, 0x100⟩] := by
  decide

/-! ## non-vacuity -/
example : ({ unitSize := 1 } : AhbmChannel).burstQueue = [] ∧ (0x100 : U32).toNat % 2 = 0 := by decide
example : ([1, 2, 3, 4, 5, 6, 7, 8] : List U32).length % ({ unitSize := 2, burstSize := 1 } : AhbmChannel).getBurstSize = 0 := by
  decide
/-- burst ×4, 32-bit units, eight writes: the accesses are those of eight unburst writes. -/
example : (writeSeq { unitSize := 2, burstSize := 1 } 0x100 4 [1, 2, 3, 4, 5, 6, 7, 8]).2 =
    (writeSeq { unitSize := 2 } 0x100 4 [1, 2, 3, 4, 5, 6, 7, 8]).2 :=
  (burst_transparent_write { unitSize := 2, burstSize := 1 } rfl 0x100 [1, 2, 3, 4, 5, 6, 7, 8] (by decide)).1
/-- the hwtested odd-address behaviour: a 16-bit unit at an odd address writes one byte. -/
example : (({ unitSize := 1 } : AhbmChannel).write16 0x101 0xABCD).2 = [⟨.write, 8, 0x101, 0xAB⟩] := by decide

end AhbmChannel
end Teakra
