import TeakraModel.Btdmp
/-!
# C16 — audio FIFO: every queued word is output once, in order, one frame per period

Property theorems about `Teakra.Btdmp` (model of `src/btdmp.cpp` / `src/btdmp.h`); the tie to the
C++ is the `btdmp` correspondence slice.  Helper lemmas are `private`.

Standing assumptions, stated as hypotheses wherever they are used:

* `Inv b` — the full/empty flags agree with the queue and the queue holds at most 16 words.
  It holds after `Reset` and is preserved by every operation (`flags_exact`).
* `Clk b` — `1 ≤ period ∧ timer < period`.  It holds after `Reset` (period 4096, timer 0) and is
  preserved by every operation except a `SetTransmitPeriod` write of a value `≤ timer`
  (nothing in the facade writes the period: it is constant 4096 there).  Outside `Clk` the
  fast-forward property is false (`skip_ne_ticks_timer_ge_period`), and with period 0 the C++
  `Skip` divides by zero.
* `timer + k < 2^64` for a skip over an *infinite* horizon (`u64 future_timer = transmit_timer +
  ticks` wraps otherwise: `skip_wrap_counterexample`).  For a finite horizon it is implied.
-/
namespace Teakra.Btdmp

/- `Inv` (flag invariant) and `Clk` (well-formed frame clock) are defined next to the model, in
`TeakraModel/Btdmp.lean`: the system model uses them as an executable guard. -/

/-- The two oldest words in order, zeros for missing words. -/
def pad2 : List U16 → Frame
  | [] => (0, 0)
  | [a] => (a, 0)
  | a :: b :: _ => (a, b)

/-- A frame is due at the next `Tick`: transmission is on and the incremented timer reaches the period. -/
def Due (b : Btdmp) : Prop := b.enable ≠ 0 ∧ b.period ≤ b.timer + 1
instance : DecidablePred Due := fun _ => inferInstanceAs (Decidable (_ ∧ _))

/-! ## queue writes and flags -/

/-- **A write is accepted iff fewer than 16 words are queued**; an accepted word goes to the end,
the empty flag clears and the full flag is set exactly when this was the 16th word.  Nothing else
changes. -/
theorem send_spec (b : Btdmp) (v : U16) (h : Inv b) :
    send b v = if b.queue.length < 16
      then { b with queue := b.queue ++ [v], empty := false, full := decide (b.queue.length = 15) }
      else b := by
  obtain ⟨_, _, h3⟩ := h
  unfold send
  by_cases h16 : b.queue.length = 16
  · simp [h16]
  · have : b.queue.length < 16 := by omega
    simp [h16, this]

/-- **Writes to a full 16-word queue are dropped**: nothing at all changes. -/
theorem full_drop (b : Btdmp) (v : U16) (h : b.queue.length = 16) : send b v = b := by
  simp [send, h]

/-- **Flushing empties the queue silently**: the queue becomes empty, the flags say so, nothing
else changes; the operation has no way to emit a frame or call the interrupt handler (its model
returns a bare state; see also `apply_flush`). -/
theorem flush_silent (b : Btdmp) (v : U16) :
    setTransmitFlush b v = { b with queue := [], empty := true, full := false } := rfl

private theorem inv_congr {b b' : Btdmp} (hq : b'.queue = b.queue) (he : b'.empty = b.empty)
    (hf : b'.full = b.full) (h : Inv b) : Inv b' := by
  unfold Inv at *; rw [hq, he, hf]; exact h

theorem inv_reset (b : Btdmp) : Inv (reset b) := by
  show Inv ({} : Btdmp); decide

theorem inv_send (b : Btdmp) (v : U16) (h : Inv b) : Inv (send b v) := by
  rw [send_spec b v h]
  obtain ⟨h1, h2, h3⟩ := h
  split
  · refine ⟨by simp, ?_, by simp; omega⟩
    simp only [List.length_append, List.length_singleton]
    rw [decide_eq_decide]; omega
  · exact ⟨h1, h2, h3⟩

theorem inv_flush (b : Btdmp) (v : U16) : Inv (setTransmitFlush b v) := by
  simp [Inv, setTransmitFlush]

theorem inv_setEnable (b : Btdmp) (v : U16) (h : Inv b) : Inv (setTransmitEnable b v) :=
  inv_congr rfl rfl rfl h
theorem inv_setPeriod (b : Btdmp) (v : U16) (h : Inv b) : Inv (setTransmitPeriod b v) :=
  inv_congr rfl rfl rfl h
theorem inv_setClockConfig (b : Btdmp) (v : U16) (h : Inv b) : Inv (setTransmitClockConfig b v) :=
  inv_congr rfl rfl rfl h

/-! ## one tick -/

/-- The frame step of `Tick` in closed form: the frame is `pad2` of the queue, two words (or what
is there) leave the queue, and the interrupt handler is called once iff 1 or 2 words were queued. -/
theorem tickFrame_spec (b : Btdmp) :
    tickFrame b =
      (if b.queue = [] then b
       else { b with queue := b.queue.drop 2, empty := (b.queue.drop 2).isEmpty, full := false },
       pad2 b.queue,
       if 1 ≤ b.queue.length ∧ b.queue.length ≤ 2 then 1 else 0) := by
  unfold tickFrame tickSlot
  rcases hq : b.queue with _ | ⟨w0, _ | ⟨w1, _ | ⟨w2, q⟩⟩⟩ <;> simp [hq, pad2]

private theorem tickFrame_cfg (b : Btdmp) :
    (tickFrame b).1.timer = b.timer ∧ (tickFrame b).1.period = b.period ∧
    (tickFrame b).1.enable = b.enable ∧ (tickFrame b).1.clockConfig = b.clockConfig := by
  rw [tickFrame_spec]; split <;> simp

private theorem tickFrame_queue (b : Btdmp) : (tickFrame b).1.queue = b.queue.drop 2 := by
  rw [tickFrame_spec]; split <;> simp_all

private theorem inv_tickFrame (b : Btdmp) (h : Inv b) : Inv (tickFrame b).1 := by
  rw [tickFrame_spec]
  obtain ⟨h1, h2, h3⟩ := h
  split
  · exact ⟨h1, h2, h3⟩
  · refine ⟨rfl, ?_, by simp; omega⟩
    simp only [List.length_drop]
    symm; rw [decide_eq_false_iff_not]; omega

/-- `Tick` when a frame is due / not due, as equations. -/
private theorem tick_due (b : Btdmp) (h : Due b) :
    tick b = ((tickFrame { b with timer := 0 }).1, [(tickFrame { b with timer := 0 }).2.1],
      (tickFrame { b with timer := 0 }).2.2) := by
  obtain ⟨he, hd⟩ := h
  simp only [tick, he, hd, if_false, if_true]

private theorem tick_not_due (b : Btdmp) (h : ¬ Due b) :
    tick b = (if b.enable = 0 then b else { b with timer := b.timer + 1 }, [], 0) := by
  unfold Due at h
  by_cases he : b.enable = 0
  · simp only [tick, he, if_true]
  · have hd : ¬ b.period ≤ b.timer + 1 := fun hd => h ⟨he, hd⟩
    simp only [tick, he, hd, if_false]

/-- **One tick.**  When transmission is enabled and the timer reaches the period, exactly one
frame is emitted; it consists of the two oldest queued words in order, with zeros for missing
words; exactly those words leave the queue and the timer restarts at 0.  Otherwise no frame is
emitted, the queue is untouched, no interrupt is raised, and the timer advances by one iff
transmission is enabled. -/
theorem tick_frame (b : Btdmp) :
    (Due b → (tick b).2.1 = [pad2 b.queue] ∧ (tick b).1.queue = b.queue.drop 2 ∧
             (tick b).1.timer = 0) ∧
    (¬ Due b → (tick b).2.1 = [] ∧ (tick b).1.queue = b.queue ∧ (tick b).2.2 = 0 ∧
               (tick b).1.timer = if b.enable = 0 then b.timer else b.timer + 1) := by
  constructor
  · intro h
    rw [tick_due b h]
    refine ⟨?_, ?_, ?_⟩
    · simp only [tickFrame_spec]
    · simp only [tickFrame_queue]
    · simp only [(tickFrame_cfg _).1]
  · intro h
    rw [tick_not_due b h]
    refine ⟨rfl, ?_, rfl, ?_⟩ <;> split <;> rfl

/-- `Tick` never touches the configuration. -/
theorem tick_cfg (b : Btdmp) :
    (tick b).1.period = b.period ∧ (tick b).1.enable = b.enable ∧
    (tick b).1.clockConfig = b.clockConfig := by
  by_cases h : Due b
  · rw [tick_due b h]; have := tickFrame_cfg { b with timer := 0 }
    exact ⟨this.2.1, this.2.2.1, this.2.2.2⟩
  · rw [tick_not_due b h]; split <;> simp

theorem inv_tick (b : Btdmp) (h : Inv b) : Inv (tick b).1 := by
  by_cases hd : Due b
  · rw [tick_due b hd]; exact inv_tickFrame _ (inv_congr rfl rfl rfl h)
  · rw [tick_not_due b hd]; split
    · exact h
    · exact inv_congr rfl rfl rfl h

theorem clk_tick (b : Btdmp) (h : Clk b) : Clk (tick b).1 := by
  obtain ⟨h1, h2⟩ := h
  by_cases hd : Due b
  · have hc := tickFrame_cfg { b with timer := 0 }
    rw [tick_due b hd]; unfold Clk; simp only [hc]
    constructor <;> bv_omega
  · rw [tick_not_due b hd]
    split
    · exact ⟨h1, h2⟩
    · rename_i he
      have : ¬ b.period ≤ b.timer + 1 := fun hh => hd ⟨he, hh⟩
      unfold Clk; simp only []
      constructor <;> bv_omega

/-- **The empty interrupt fires exactly when a pop empties the queue** (one slot of a frame):
the handler is called once iff a word was popped and the queue is empty afterwards. -/
theorem slot_irq_iff (b : Btdmp) :
    (tickSlot b).2.2 = if b.queue ≠ [] ∧ (tickSlot b).1.queue = [] then 1 else 0 := by
  unfold tickSlot
  rcases hq : b.queue with _ | ⟨w, _ | ⟨w', q⟩⟩ <;> simp

/-- **The empty interrupt fires exactly when a pop empties the queue** (one tick): the number of
interrupt-handler calls of a tick is 1 if this tick popped at least one word and left the queue
empty, and 0 otherwise — in particular never more than one, none on ticks without a frame, none
on an underrun frame of an already empty queue, and none while words remain. -/
theorem empty_irq_iff (b : Btdmp) :
    (tick b).2.2 =
      if (tick b).1.queue.length < b.queue.length ∧ (tick b).1.queue = [] then 1 else 0 := by
  by_cases hd : Due b
  · rw [tick_due b hd]
    simp only [tickFrame_spec]
    rcases hq : b.queue with _ | ⟨w0, _ | ⟨w1, _ | ⟨w2, q⟩⟩⟩ <;> simp
  · have := (tick_frame b).2 hd
    rw [this.2.2.1, this.2.1]; simp

/-! ## many ticks -/

/-- `k` calls of `Tick`: final state, all frames in emission order, total interrupt-handler calls. -/
def ticksCore : Nat → Btdmp → Btdmp × List Frame × Nat
  | 0, b => (b, [], 0)
  | k + 1, b =>
    let r := tick b
    let r' := ticksCore k r.1
    (r'.1, r.2.1 ++ r'.2.1, r.2.2 + r'.2.2)

/-- `c` consecutive frame steps (what `Tick` does each time the timer reaches the period). -/
def tickFrames : Nat → Btdmp → Btdmp × List Frame × Nat
  | 0, b => (b, [], 0)
  | c + 1, b =>
    let r := tickFrame b
    let r' := tickFrames c r.1
    (r'.1, r.2.1 :: r'.2.1, r.2.2 + r'.2.2)

def setTimer (b : Btdmp) (x : U16) : Btdmp := { b with timer := x }

@[simp] private theorem setTimer_period (b : Btdmp) (x : U16) : (setTimer b x).period = b.period := rfl
@[simp] private theorem setTimer_timer (b : Btdmp) (x : U16) : (setTimer b x).timer = x := rfl
@[simp] private theorem setTimer_enable (b : Btdmp) (x : U16) : (setTimer b x).enable = b.enable := rfl
@[simp] private theorem setTimer_queue (b : Btdmp) (x : U16) : (setTimer b x).queue = b.queue := rfl
@[simp] private theorem setTimer_empty (b : Btdmp) (x : U16) : (setTimer b x).empty = b.empty := rfl
private theorem setTimer_setTimer (b : Btdmp) (x y : U16) : setTimer (setTimer b x) y = setTimer b y := rfl
private theorem setTimer_self (b : Btdmp) : setTimer b b.timer = b := rfl

private theorem tickSlot_setTimer (b : Btdmp) (x : U16) :
    tickSlot (setTimer b x) = (setTimer (tickSlot b).1 x, (tickSlot b).2) := by
  unfold tickSlot setTimer
  rcases hq : b.queue with _ | ⟨w, q⟩ <;> simp [hq]

private theorem tickFrame_setTimer (b : Btdmp) (x : U16) :
    tickFrame (setTimer b x) = (setTimer (tickFrame b).1 x, (tickFrame b).2) := by
  simp [tickFrame, tickSlot_setTimer]

private theorem tickFrames_setTimer (c : Nat) : ∀ (b : Btdmp) (x : U16),
    tickFrames c (setTimer b x) = (setTimer (tickFrames c b).1 x, (tickFrames c b).2) := by
  induction c with
  | zero => intro b x; rfl
  | succ c ih => intro b x; simp [tickFrames, tickFrame_setTimer, ih]

private theorem tickFrames_length (c : Nat) : ∀ (b : Btdmp), (tickFrames c b).2.1.length = c := by
  induction c with
  | zero => intro b; rfl
  | succ c ih => intro b; simp [tickFrames, ih]

/-- **`k` ticks in closed form.**  With transmission enabled and a well-formed clock, `k` ticks
from phase `t` with period `p` perform exactly `(t + k) / p` frame steps — one every `p` cycles,
the first when the timer reaches the period — and leave the phase at `(t + k) % p`. -/
theorem ticks_closed (k : Nat) : ∀ (b : Btdmp), b.enable ≠ 0 → Clk b →
    ticksCore k b =
      (setTimer (tickFrames ((b.timer.toNat + k) / b.period.toNat) b).1
         (BitVec.ofNat 16 ((b.timer.toNat + k) % b.period.toNat)),
       (tickFrames ((b.timer.toNat + k) / b.period.toNat) b).2) := by
  induction k with
  | zero =>
    intro b _ hc
    obtain ⟨h1, h2⟩ := hc
    have hlt : b.timer.toNat < b.period.toNat := by bv_omega
    simp [ticksCore, Nat.div_eq_of_lt hlt, Nat.mod_eq_of_lt hlt, tickFrames, setTimer_self]
  | succ k ih =>
    intro b he hc
    obtain ⟨h1, h2⟩ := hc
    have hlt : b.timer.toNat < b.period.toNat := by bv_omega
    have hp : 0 < b.period.toNat := by omega
    by_cases hdue : b.period ≤ b.timer + 1
    · have hpt : b.timer.toNat + 1 = b.period.toNat := by bv_omega
      have ht : tick b = (setTimer (tickFrame b).1 0, [(tickFrame b).2.1], (tickFrame b).2.2) := by
        have := tickFrame_setTimer b 0
        simp only [tick, he, hdue, if_false, if_true]
        exact congrArg (fun r => (r.1, [r.2.1], r.2.2)) this
      have hcfg := tickFrame_cfg b
      have he' : (setTimer (tickFrame b).1 0).enable ≠ 0 := by simpa [hcfg] using he
      have hc' : Clk (setTimer (tickFrame b).1 0) := by
        unfold Clk; simp only [setTimer, hcfg]; constructor <;> bv_omega
      have e1 : (b.timer.toNat + (k + 1)) / b.period.toNat = k / b.period.toNat + 1 := by
        rw [show b.timer.toNat + (k + 1) = k + b.period.toNat by omega, Nat.add_div_right _ hp]
      have e2 : (b.timer.toNat + (k + 1)) % b.period.toNat = k % b.period.toNat := by
        rw [show b.timer.toNat + (k + 1) = k + b.period.toNat by omega, Nat.add_mod_right]
      simp only [ticksCore, ht, ih _ he' hc', e1, e2, tickFrames]
      have z : BitVec.toNat (0 : U16) = 0 := rfl
      simp only [setTimer_period, setTimer_timer, hcfg, tickFrames_setTimer, setTimer_setTimer,
        Nat.zero_add, z, List.singleton_append]
    · have hnd : b.timer.toNat + 1 < b.period.toNat := by bv_omega
      have ht : tick b = (setTimer b (b.timer + 1), [], 0) := by
        simp only [tick, he, hdue, if_false]; rfl
      have he' : (setTimer b (b.timer + 1)).enable ≠ 0 := he
      have hc' : Clk (setTimer b (b.timer + 1)) := by
        unfold Clk; simp only [setTimer]; constructor <;> bv_omega
      have e0 : (setTimer b (b.timer + 1)).timer.toNat + k = b.timer.toNat + (k + 1) := by
        simp only [setTimer]; bv_omega
      simp only [ticksCore, ht, ih _ he' hc', e0]
      simp only [setTimer_period, tickFrames_setTimer, setTimer_setTimer, List.nil_append,
        Nat.zero_add]

/-- With transmission disabled ticks do nothing at all. -/
theorem ticks_disabled (k : Nat) (b : Btdmp) (he : b.enable = 0) : ticksCore k b = (b, [], 0) := by
  induction k with
  | zero => rfl
  | succ k ih =>
    have ht : tick b = (b, [], 0) := by simp only [tick, he, if_true]
    simp [ticksCore, ht, ih]

/-- **Exactly one frame per period.**  While transmission is enabled, `period` consecutive
ticks, from any phase, emit exactly one frame — the two oldest words in order, zeros for
missing — remove exactly those words and return to the same phase. -/
theorem one_frame_per_period (b : Btdmp) (he : b.enable ≠ 0) (hc : Clk b) :
    (ticksCore b.period.toNat b).2.1 = [pad2 b.queue] ∧
    (ticksCore b.period.toNat b).1.queue = b.queue.drop 2 ∧
    (ticksCore b.period.toNat b).1.timer = b.timer := by
  have hlt : b.timer.toNat < b.period.toNat := by have := hc.2; bv_omega
  have e1 : (b.timer.toNat + b.period.toNat) / b.period.toNat = 1 := by
    rw [Nat.add_div_right _ (by omega), Nat.div_eq_of_lt hlt]
  have e2 : (b.timer.toNat + b.period.toNat) % b.period.toNat = b.timer.toNat := by
    rw [Nat.add_mod_right, Nat.mod_eq_of_lt hlt]
  rw [ticks_closed _ b he hc, e1, e2]
  refine ⟨?_, ?_, ?_⟩
  · simp [tickFrames, tickFrame_spec]
  · simp [tickFrames, tickFrame_queue]
  · simp

/-- **Frame rate.**  While enabled, `k` ticks from phase `t` emit exactly `(t + k) / period` frames. -/
theorem frame_count (b : Btdmp) (he : b.enable ≠ 0) (hc : Clk b) (k : Nat) :
    (ticksCore k b).2.1.length = (b.timer.toNat + k) / b.period.toNat := by
  rw [ticks_closed k b he hc]; exact tickFrames_length _ _

/-! ## fast-forward -/

private theorem frame_eq (b : Btdmp) (h : b.queue = [] ∨ (2 < b.queue.length ∧ b.empty = false)) :
    skipFrameOk b = true ∧ tickFrame b = ((skipFrame b).1, (skipFrame b).2, 0) := by
  rcases b with ⟨cc, pe, ti, en, e, f, q⟩
  rcases q with _ | ⟨w0, _ | ⟨w1, _ | ⟨w2, q⟩⟩⟩ <;>
    simp_all [tickFrame, tickSlot, skipFrame, skipSlot, skipFrameOk, skipSlotOk]

private theorem skipFrame_fields (b : Btdmp) :
    (skipFrame b).1.queue = b.queue.drop 2 ∧ (skipFrame b).1.empty = b.empty ∧
    (skipFrame b).1.timer = b.timer ∧ (skipFrame b).1.period = b.period ∧
    (skipFrame b).1.enable = b.enable ∧ (skipFrame b).1.clockConfig = b.clockConfig ∧
    (skipFrame b).2 = pad2 b.queue := by
  rcases b with ⟨cc, pe, ti, en, e, f, q⟩
  rcases q with _ | ⟨w0, _ | ⟨w1, q⟩⟩ <;> simp [skipFrame, skipSlot, pad2]

private theorem frames_eq (c : Nat) : ∀ (b : Btdmp),
    (b.queue = [] ∨ (2 * c < b.queue.length ∧ b.empty = false)) →
    skipLoopOk c b = true ∧ tickFrames c b = ((skipLoop c b).1, (skipLoop c b).2, 0) := by
  induction c with
  | zero => intro b _; simp [skipLoopOk, tickFrames, skipLoop]
  | succ c ih =>
    intro b h
    have hf := frame_eq b (by rcases h with h | h; exact .inl h; exact .inr ⟨by omega, h.2⟩)
    have hs := skipFrame_fields b
    have h' : (skipFrame b).1.queue = [] ∨
        (2 * c < (skipFrame b).1.queue.length ∧ (skipFrame b).1.empty = false) := by
      rw [hs.1, hs.2.1]
      rcases h with h | h
      · left; simp [h]
      · right; refine ⟨?_, h.2⟩; simp; omega
    have := ih _ h'
    simp [skipLoopOk, tickFrames, skipLoop, hf.1, hf.2, this.1, this.2]

private theorem skipLoop_queue (c : Nat) : ∀ (b : Btdmp),
    (skipLoop c b).1.queue = b.queue.drop (2 * c) := by
  induction c with
  | zero => intro b; simp [skipLoop]
  | succ c ih =>
    intro b
    simp only [skipLoop, ih, (skipFrame_fields b).1, List.drop_drop]
    congr 1; omega

private theorem skipPre_eq (b : Btdmp) (hc : Clk b) (k : Nat) (hov : b.timer.toNat + k < 2 ^ 64) :
    skipPre b k = (setTimer b (BitVec.ofNat 16 ((b.timer.toNat + k) % b.period.toNat)),
      (b.timer.toNat + k) / b.period.toNat) := by
  have h : ¬ b.period ≤ b.timer := by have := hc.2; bv_omega
  simp only [skipPre, h, if_false, Nat.mod_eq_of_lt hov]; rfl

private theorem maxSkip_eq (b : Btdmp) (hi : Inv b) (hc : Clk b) (he : b.enable ≠ 0) (hq : b.queue ≠ []) :
    maxSkip b =
      b.period.toNat - b.timer.toNat - 1 + ((b.queue.length + 1) / 2 - 1) * b.period.toNat := by
  obtain ⟨_, _, hlen⟩ := hi
  obtain ⟨h1, h2⟩ := hc
  have hp16 : b.period.toNat < 65536 := b.period.isLt
  have hq' : b.queue.isEmpty = false := by simpa using hq
  have hmp : ((b.queue.length + 1) / 2 - 1) * b.period.toNat ≤ 7 * 65536 :=
    Nat.mul_le_mul (by omega) (by omega)
  simp only [maxSkip, he, hq', false_or, Bool.false_eq_true, if_false, h2, if_true]
  apply Nat.mod_eq_of_lt; omega

/-- **The horizon in numbers.**  With transmission enabled and a non-empty queue the reported
horizon is finite, a skip within it performs fewer frame steps than would empty the queue
(`2 · frames < queued words`), and `transmit_timer + k` cannot wrap. -/
theorem horizon_frames (b : Btdmp) (hi : Inv b) (hc : Clk b) (he : b.enable ≠ 0) (hq : b.queue ≠ [])
    (k : Nat) (hk : k ≤ maxSkip b) :
    2 * ((b.timer.toNat + k) / b.period.toNat) < b.queue.length ∧ b.timer.toNat + k < 2 ^ 64 ∧
    maxSkip b < 2 ^ 20 := by
  obtain ⟨_, _, hlen⟩ := hi
  obtain ⟨h1, h2⟩ := hc
  have hlt : b.timer.toNat < b.period.toNat := by bv_omega
  have hp16 : b.period.toNat < 65536 := b.period.isLt
  have hn : 0 < b.queue.length := List.length_pos_iff.mpr hq
  have hq' : b.queue.isEmpty = false := by simpa using hq
  have hmp : ((b.queue.length + 1) / 2 - 1) * b.period.toNat ≤ 7 * 65536 :=
    Nat.mul_le_mul (by omega) (by omega)
  have hm : maxSkip b =
      b.period.toNat - b.timer.toNat - 1 + ((b.queue.length + 1) / 2 - 1) * b.period.toNat := by
    simp only [maxSkip, he, hq', false_or, Bool.false_eq_true, if_false, h2, if_true]
    apply Nat.mod_eq_of_lt; omega
  rw [hm] at hk
  have hdiv : (b.timer.toNat + k) / b.period.toNat < (b.queue.length + 1) / 2 - 1 + 1 := by
    rw [Nat.div_lt_iff_lt_mul (by omega), Nat.add_mul, Nat.one_mul]
    omega
  refine ⟨by omega, by omega, by omega⟩

private theorem skip_core (b : Btdmp) (hi : Inv b) (hc : Clk b) (k : Nat) (hk : k ≤ maxSkip b)
    (hov : maxSkip b = infinity → b.timer.toNat + k < 2 ^ 64) :
    skipDefined b = true ∧ skipOk b k = true ∧
    ticksCore k b = ((skipCore b k).1, (skipCore b k).2, 0) := by
  by_cases he : b.enable = 0
  · simp [skipDefined, skipOk, skipCore, he, ticks_disabled k b he]
  have hp : b.period ≠ 0 := by have := hc.1; intro h; rw [h] at this; simp at this
  have hdef : skipDefined b = true := by simp_all [skipDefined]
  have hcond : (b.queue = [] ∨
      (2 * ((b.timer.toNat + k) / b.period.toNat) < b.queue.length ∧ b.empty = false)) ∧
      b.timer.toNat + k < 2 ^ 64 := by
    by_cases hq : b.queue = []
    · exact ⟨.inl hq, hov (by simp [maxSkip, hq])⟩
    · have := horizon_frames b hi hc he hq k hk
      refine ⟨.inr ⟨this.1, ?_⟩, this.2.1⟩
      rw [hi.1]; simpa using hq
  have hpre := skipPre_eq b hc k hcond.2
  have hfr := frames_eq ((b.timer.toNat + k) / b.period.toNat)
    (setTimer b (BitVec.ofNat 16 ((b.timer.toNat + k) % b.period.toNat))) hcond.1
  refine ⟨hdef, ?_, ?_⟩
  · simp only [skipOk, he, if_false, hpre, hfr.1]
  · rw [ticks_closed k b he hc]
    simp only [skipCore, he, if_false, hpre]
    rw [← hfr.2, tickFrames_setTimer]

/-- **Fast-forward is exact.**  Under the flag invariant and a well-formed clock, for every
`k` up to the horizon the port reports (`k = 0` included), `Skip(k)` trips no assertion, divides
by no zero, and equals `k` single `Tick`s in the final state and in the frames handed to the
audio callback (same frames, same order); those `k` ticks call the interrupt handler zero times,
as does `Skip`.  Over an infinite horizon (transmission off, or on with an empty queue — then
the frames are all-zero underrun frames) this holds for every `k` that does not wrap the 64-bit
sum `transmit_timer + k`. -/
theorem skip_eq_ticks (b : Btdmp) (hi : Inv b) (hc : Clk b) (k : Nat) (hk : k ≤ maxSkip b)
    (hov : maxSkip b = infinity → b.timer.toNat + k < 2 ^ 64) :
    skip b k = .ok ((ticksCore k b).1, (ticksCore k b).2.1) ∧ (ticksCore k b).2.2 = 0 := by
  have h := skip_core b hi hc k hk hov
  simp [skip, h.1, h.2.1, h.2.2]

/-- `skip_eq_ticks` for a finite horizon needs no overflow side condition. -/
theorem skip_eq_ticks_finite (b : Btdmp) (hi : Inv b) (hc : Clk b) (he : b.enable ≠ 0)
    (hq : b.queue ≠ []) (k : Nat) (hk : k ≤ maxSkip b) :
    skip b k = .ok ((ticksCore k b).1, (ticksCore k b).2.1) ∧ (ticksCore k b).2.2 = 0 :=
  skip_eq_ticks b hi hc k hk (fun _ => (horizon_frames b hi hc he hq k hk).2.1)

/-- **Enabled with an empty queue** (`GetMaxSkip = Infinity`): `Skip(k)` equals `k` ticks for
every `k` (short of 64-bit wrap-around), and both emit `(timer + k) / period` all-zero frames. -/
theorem skip_eq_ticks_empty_queue (b : Btdmp) (hi : Inv b) (hc : Clk b) (hq : b.queue = [])
    (k : Nat) (hov : b.timer.toNat + k < 2 ^ 64) :
    maxSkip b = infinity ∧
    skip b k = .ok ((ticksCore k b).1, (ticksCore k b).2.1) ∧ (ticksCore k b).2.2 = 0 ∧
    (b.enable ≠ 0 →
      (ticksCore k b).2.1 = List.replicate ((b.timer.toNat + k) / b.period.toNat) (0, 0)) := by
  have hm : maxSkip b = infinity := by simp [maxSkip, hq]
  have hk : k ≤ maxSkip b := by rw [hm]; unfold infinity; omega
  have h := skip_eq_ticks b hi hc k hk (fun _ => hov)
  refine ⟨hm, h.1, h.2, ?_⟩
  intro he
  rw [ticks_closed k b he hc]
  generalize (b.timer.toNat + k) / b.period.toNat = c
  have : ∀ (c : Nat) (b : Btdmp), b.queue = [] → (tickFrames c b).2.1 = List.replicate c (0, 0) := by
    intro c
    induction c with
    | zero => intro b _; rfl
    | succ c ih =>
      intro b hq
      have h1 : tickFrame b = (b, (0, 0), 0) := by rw [tickFrame_spec]; simp [hq, pad2]
      simp [tickFrames, h1, ih b hq, List.replicate_succ]
  exact this c b hq

/-- **The horizon never skips over the empty interrupt.**  Within a finite horizon (transmission
on, queue not empty) the `k` ticks raise no interrupt and the queue still holds at least one
word afterwards: the frame that empties the queue — the one that raises the interrupt — lies
strictly beyond the horizon. -/
theorem horizon_keeps_one (b : Btdmp) (hi : Inv b) (hc : Clk b) (he : b.enable ≠ 0)
    (hq : b.queue ≠ []) (k : Nat) (hk : k ≤ maxSkip b) :
    (ticksCore k b).2.2 = 0 ∧ (ticksCore k b).1.queue ≠ [] ∧
    (ticksCore k b).1.queue = b.queue.drop (2 * ((b.timer.toNat + k) / b.period.toNat)) := by
  have hf := horizon_frames b hi hc he hq k hk
  have h := skip_core b hi hc k hk (fun _ => hf.2.1)
  have hpre := skipPre_eq b hc k hf.2.1
  have hqq : (ticksCore k b).1.queue = b.queue.drop (2 * ((b.timer.toNat + k) / b.period.toNat)) := by
    rw [h.2.2]; simp only [skipCore, he, if_false, hpre, skipLoop_queue, setTimer_queue]
  refine ⟨by rw [h.2.2], ?_, hqq⟩
  rw [hqq]; intro hnil
  have := congrArg List.length hnil
  simp at this; omega

private theorem tickFrames_queue (c : Nat) : ∀ (b : Btdmp),
    (tickFrames c b).1.queue = b.queue.drop (2 * c) := by
  induction c with
  | zero => intro b; simp [tickFrames]
  | succ c ih =>
    intro b
    simp only [tickFrames, ih, tickFrame_queue, List.drop_drop]
    congr 1; omega

private theorem tickFrames_irqs (c : Nat) : ∀ (b : Btdmp),
    (tickFrames c b).2.2 = if 0 < b.queue.length ∧ b.queue.length ≤ 2 * c then 1 else 0 := by
  induction c with
  | zero => intro b; simp only [tickFrames]; split <;> omega
  | succ c ih =>
    intro b
    have h1 : (tickFrame b).2.2 = if 1 ≤ b.queue.length ∧ b.queue.length ≤ 2 then 1 else 0 := by
      rw [tickFrame_spec]
    simp only [tickFrames, ih, h1, tickFrame_queue, List.length_drop]
    repeat' split
    all_goals omega

/-- **The empty interrupt over many ticks**: while enabled, `k` ticks call the interrupt handler
exactly once if the queue was non-empty and one of the frames of these ticks empties it, and
never otherwise. -/
theorem irq_count (b : Btdmp) (he : b.enable ≠ 0) (hc : Clk b) (k : Nat) :
    (ticksCore k b).2.2 =
      if 0 < b.queue.length ∧ b.queue.length ≤ 2 * ((b.timer.toNat + k) / b.period.toNat)
      then 1 else 0 := by
  rw [ticks_closed k b he hc]; exact tickFrames_irqs _ _

/-- The horizon is tight: the very next tick after a full-horizon skip is the frame that empties
the queue and raises the interrupt (a larger horizon would skip over an interrupt). -/
theorem horizon_tight (b : Btdmp) (hi : Inv b) (hc : Clk b) (he : b.enable ≠ 0) (hq : b.queue ≠ []) :
    (ticksCore (maxSkip b + 1) b).2.2 = 1 ∧ (ticksCore (maxSkip b + 1) b).1.queue = [] := by
  have hm := maxSkip_eq b hi hc he hq
  have hlt : b.timer.toNat < b.period.toNat := by have := hc.2; bv_omega
  have hn : 0 < b.queue.length := List.length_pos_iff.mpr hq
  have e : b.timer.toNat + (maxSkip b + 1) = ((b.queue.length + 1) / 2) * b.period.toNat := by
    rw [hm]
    have : (b.queue.length + 1) / 2 = ((b.queue.length + 1) / 2 - 1) + 1 := by omega
    rw [this, Nat.add_mul, Nat.one_mul]
    have : ((b.queue.length + 1) / 2 - 1 + 1 - 1) = (b.queue.length + 1) / 2 - 1 := by omega
    rw [this]; omega
  have ec : (b.timer.toNat + (maxSkip b + 1)) / b.period.toNat = (b.queue.length + 1) / 2 := by
    rw [e, Nat.mul_div_cancel _ (by omega)]
  rw [ticks_closed _ b he hc, ec]
  refine ⟨?_, ?_⟩
  · rw [tickFrames_irqs]; simp only [hn, true_and]; split <;> omega
  · simp only [setTimer_queue, tickFrames_queue]
    apply List.drop_eq_nil_of_le; omega

/-! ## arbitrary histories -/

/-- Everything a program (MMIO writes) or the core timing can do to the port. -/
inductive Op where
  | reset
  | send (v : U16) | flush (v : U16)
  | setEnable (v : U16) | setPeriod (v : U16) | setClock (v : U16)
  | tick | skip (k : Nat)

/-- One operation on the model, unrestricted: new state, frames emitted, interrupt-handler calls.
A `skip` that trips the assertion (or would divide by zero) aborts. -/
def apply (b : Btdmp) : Op → R (Btdmp × List Frame × Nat)
  | .reset => .ok (reset b, [], 0)
  | .send v => .ok (send b v, [], 0)
  | .flush v => .ok (setTransmitFlush b v, [], 0)
  | .setEnable v => .ok (setTransmitEnable b v, [], 0)
  | .setPeriod v => .ok (setTransmitPeriod b v, [], 0)
  | .setClock v => .ok (setTransmitClockConfig b v, [], 0)
  | .tick => .ok (tick b)
  | .skip k => (skip b k).map fun r => (r.1, r.2, 0)

/-- Flushing through the operation interface: no frame, no interrupt. -/
theorem apply_flush (b : Btdmp) (v : U16) :
    apply b (.flush v) = .ok ({ b with queue := [], empty := true, full := false }, [], 0) := rfl

/-- What the outside world sees of a history, in order: words offered by `Send`, flushes
(`SetTransmitFlush` or `Reset`), and frames handed to the audio callback. -/
inductive Ev where
  | send (w : U16)
  | flush
  | frame (f : Frame)
  deriving DecidableEq

def evs : Op → List Frame → List Ev
  | .send v, _ => [.send v]
  | .flush _, _ => [.flush]
  | .reset, _ => [.flush]
  | _, frames => frames.map .frame

/-- Run a history; the result is the final state and the observable log. -/
def run : List Op → Btdmp → R (Btdmp × List Ev)
  | [], b => .ok (b, [])
  | op :: ops, b => do
      let r ← apply b op
      let r' ← run ops r.1
      pure (r'.1, evs op r.2.1 ++ r'.2)

private theorem inv_skipFrame (b : Btdmp) (hok : skipFrameOk b = true) (h : Inv b) :
    Inv (skipFrame b).1 := by
  rcases b with ⟨cc, pe, ti, en, e, f, q⟩
  rcases q with _ | ⟨w0, _ | ⟨w1, _ | ⟨w2, q⟩⟩⟩ <;>
    simp_all [Inv, skipFrame, skipSlot, skipFrameOk, skipSlotOk]
  omega

private theorem inv_skipLoop (c : Nat) : ∀ (b : Btdmp), skipLoopOk c b = true → Inv b →
    Inv (skipLoop c b).1 := by
  induction c with
  | zero => intro b _ h; exact h
  | succ c ih =>
    intro b hok h
    simp only [skipLoopOk, Bool.and_eq_true] at hok
    exact ih _ hok.2 (inv_skipFrame b hok.1 h)

private theorem skipPre_fields (b : Btdmp) (k : Nat) :
    (skipPre b k).1.queue = b.queue ∧ (skipPre b k).1.empty = b.empty ∧
    (skipPre b k).1.full = b.full := by
  unfold skipPre; split <;> simp

theorem inv_skip (b : Btdmp) (k : Nat) (h : Inv b) (r : Btdmp × List Frame)
    (hr : skip b k = .ok r) : Inv r.1 := by
  unfold skip at hr
  split at hr
  · cases hr
  split at hr
  · rename_i hok
    injection hr with hr; rw [← hr]
    unfold skipCore; unfold skipOk at hok
    split
    · exact h
    · rename_i he
      simp only [he, if_false] at hok
      have hf := skipPre_fields b k
      exact inv_skipLoop _ _ hok (inv_congr hf.1 hf.2.1 hf.2.2 h)
  · cases hr

/-- Every operation preserves the flag invariant. -/
theorem inv_apply (b : Btdmp) (h : Inv b) (op : Op) (r : Btdmp × List Frame × Nat)
    (hr : apply b op = .ok r) : Inv r.1 := by
  cases op with
  | reset => injection hr with hr; rw [← hr]; exact inv_reset b
  | send v => injection hr with hr; rw [← hr]; exact inv_send b v h
  | flush v => injection hr with hr; rw [← hr]; exact inv_flush b v
  | setEnable v => injection hr with hr; rw [← hr]; exact inv_setEnable b v h
  | setPeriod v => injection hr with hr; rw [← hr]; exact inv_setPeriod b v h
  | setClock v => injection hr with hr; rw [← hr]; exact inv_setClockConfig b v h
  | tick => injection hr with hr; rw [← hr]; exact inv_tick b h
  | skip k =>
    simp only [apply] at hr
    cases hs : skip b k with
    | error e => rw [hs] at hr; cases hr
    | ok r' =>
      rw [hs] at hr; simp only [Except.map] at hr
      injection hr with hr; rw [← hr]; exact inv_skip b k h r' hs

/-- **The full/empty flags are exact, always.**  After any history of sends, flushes, resets,
enable / period / clock-config writes, ticks and skips (any period, any phase, any skip length
that does not abort), starting from any state with exact flags — in particular from `Reset` —
`transmit_empty` is set iff the queue is empty, `transmit_full` iff it holds 16 words, and it
never holds more than 16. -/
theorem flags_exact (ops : List Op) : ∀ (b : Btdmp), Inv b → ∀ r, run ops b = .ok r → Inv r.1 := by
  induction ops with
  | nil => intro b h r hr; injection hr with hr; rw [← hr]; exact h
  | cons op ops ih =>
    intro b h r hr
    simp only [run, bind, Except.bind] at hr
    cases ha : apply b op with
    | error e => rw [ha] at hr; cases hr
    | ok r1 =>
      rw [ha] at hr; simp only at hr
      cases hrun : run ops r1.1 with
      | error e => rw [hrun] at hr; cases hr
      | ok r2 =>
        rw [hrun] at hr; simp only [pure, Except.pure] at hr
        injection hr with hr; rw [← hr]
        exact ih _ (inv_apply b h op r1 ha) r2 hrun

theorem flags_exact_from_reset (ops : List Op) (b0 : Btdmp) (r : Btdmp × List Ev)
    (hr : run ops (reset b0) = .ok r) : Inv r.1 :=
  flags_exact ops _ (inv_reset b0) r hr

/-! ### the reference FIFO -/

/-- The reference FIFO the observable log is checked against.  `accepted` = every word taken, in
order; `gone` = every word that left the queue (played or flushed), in order; `played` = the
words handed to the audio callback, padding zeros excluded; `q` = the words still queued. -/
structure Fifo where
  accepted : List U16 := []
  gone : List U16 := []
  played : List U16 := []
  q : List U16 := []

/-- One observable event on the reference FIFO.  A `send` is taken iff fewer than 16 words are
queued, otherwise dropped.  A `frame` is legal only if it is exactly the two oldest queued words
in order with zeros for missing ones, and removes exactly those words.  A `flush` removes
exactly the queued words.  (`none` = the log is not a behaviour of a FIFO.) -/
def Fifo.step (s : Fifo) : Ev → Option Fifo
  | .send w =>
    some (if s.q.length < 16 then { s with accepted := s.accepted ++ [w], q := s.q ++ [w] } else s)
  | .flush => some { s with gone := s.gone ++ s.q, q := [] }
  | .frame f =>
    if f = pad2 s.q then
      some { s with gone := s.gone ++ s.q.take 2, played := s.played ++ s.q.take 2, q := s.q.drop 2 }
    else none

def Fifo.run : List Ev → Fifo → Option Fifo
  | [], s => some s
  | e :: es, s => (s.step e).bind (Fifo.run es)

private theorem Fifo.run_append (l1 l2 : List Ev) : ∀ (s : Fifo),
    Fifo.run (l1 ++ l2) s = (Fifo.run l1 s).bind (Fifo.run l2) := by
  induction l1 with
  | nil => intro s; rfl
  | cons e l1 ih =>
    intro s
    simp only [List.cons_append, Fifo.run]
    cases s.step e with
    | none => rfl
    | some s' => simp [ih]

/-- In the reference FIFO nothing is lost, duplicated or reordered, by construction:
`gone ++ q = accepted` is preserved by every event, and without a flush `played = gone`. -/
theorem Fifo.conservation (log : List Ev) : ∀ (s s' : Fifo), Fifo.run log s = some s' →
    (s.gone ++ s.q = s.accepted → s'.gone ++ s'.q = s'.accepted) ∧
    (Ev.flush ∉ log → s.played = s.gone → s'.played = s'.gone) := by
  induction log with
  | nil => intro s s' h; injection h with h; subst h; exact ⟨id, fun _ => id⟩
  | cons e log ih =>
    intro s s' h
    simp only [Fifo.run] at h
    cases hs : s.step e with
    | none => rw [hs] at h; cases h
    | some s1 =>
      rw [hs] at h; simp only [Option.bind] at h
      have := ih s1 s' h
      cases e with
      | send w =>
        simp only [Fifo.step] at hs; injection hs with hs; subst hs
        refine ⟨fun h0 => this.1 ?_, fun hn h0 => this.2 (fun hh => hn (List.mem_cons_of_mem _ hh)) ?_⟩
        · split
          · simp only [← List.append_assoc, h0]
          · exact h0
        · split <;> exact h0
      | flush =>
        simp only [Fifo.step] at hs; injection hs with hs; subst hs
        refine ⟨fun h0 => this.1 ?_, fun hn _ => absurd (List.mem_cons_self) hn⟩
        simpa using h0
      | frame f =>
        simp only [Fifo.step] at hs
        split at hs
        · injection hs with hs; subst hs
          refine ⟨fun h0 => this.1 ?_, fun hn h0 => this.2 (fun hh => hn (List.mem_cons_of_mem _ hh)) ?_⟩
          · simp only [List.append_assoc, List.take_append_drop]; exact h0
          · simp only [h0]
        · cases hs

private theorem sim_skipLoop (c : Nat) : ∀ (b : Btdmp) (s : Fifo), s.q = b.queue →
    ∃ s', Fifo.run ((skipLoop c b).2.map Ev.frame) s = some s' ∧ s'.q = (skipLoop c b).1.queue := by
  induction c with
  | zero => intro b s h; exact ⟨s, rfl, h⟩
  | succ c ih =>
    intro b s h
    have hf := skipFrame_fields b
    simp only [skipLoop, List.map_cons, Fifo.run, Fifo.step, hf.2.2.2.2.2.2, h, if_true, Option.bind]
    exact ih _ _ (by simp only [hf.1])

/-- One operation of the port is one legal move sequence of the reference FIFO. -/
private theorem sim_apply (b : Btdmp) (h : Inv b) (s : Fifo) (hq : s.q = b.queue) (op : Op)
    (r : Btdmp × List Frame × Nat) (hr : apply b op = .ok r) :
    ∃ s', Fifo.run (evs op r.2.1) s = some s' ∧ s'.q = r.1.queue := by
  cases op with
  | reset =>
    injection hr with hr; subst hr
    exact ⟨_, rfl, rfl⟩
  | send v =>
    injection hr with hr; subst hr
    refine ⟨_, rfl, ?_⟩
    simp only [send_spec b v h, hq]
    split <;> simp_all
  | flush v => injection hr with hr; subst hr; exact ⟨_, rfl, rfl⟩
  | setEnable v => injection hr with hr; subst hr; exact ⟨s, rfl, hq⟩
  | setPeriod v => injection hr with hr; subst hr; exact ⟨s, rfl, hq⟩
  | setClock v => injection hr with hr; subst hr; exact ⟨s, rfl, hq⟩
  | tick =>
    injection hr with hr; subst hr
    by_cases hd : Due b
    · have := (tick_frame b).1 hd
      simp only [evs, this.1, List.map_cons, List.map_nil, Fifo.run, Fifo.step, hq, if_true,
        Option.bind]
      exact ⟨_, rfl, this.2.1.symm⟩
    · have := (tick_frame b).2 hd
      simp only [evs, this.1, List.map_nil, Fifo.run]
      exact ⟨s, rfl, by rw [this.2.1]; exact hq⟩
  | skip k =>
    simp only [apply] at hr
    cases hs : skip b k with
    | error e => rw [hs] at hr; cases hr
    | ok r' =>
      rw [hs] at hr; simp only [Except.map] at hr
      injection hr with hr; subst hr
      unfold skip at hs
      split at hs
      · cases hs
      split at hs
      · injection hs with hs; subst hs
        simp only [evs]
        unfold skipCore
        split
        · exact ⟨s, rfl, hq⟩
        · exact sim_skipLoop _ _ s (by rw [(skipPre_fields b k).1]; exact hq)
      · cases hs

private theorem sim_run (ops : List Op) : ∀ (b : Btdmp), Inv b → ∀ (s : Fifo), s.q = b.queue →
    ∀ r, run ops b = .ok r → ∃ s', Fifo.run r.2 s = some s' ∧ s'.q = r.1.queue := by
  induction ops with
  | nil => intro b _ s hq r hr; injection hr with hr; subst hr; exact ⟨s, rfl, hq⟩
  | cons op ops ih =>
    intro b h s hq r hr
    simp only [run, bind, Except.bind] at hr
    cases ha : apply b op with
    | error e => rw [ha] at hr; cases hr
    | ok r1 =>
      rw [ha] at hr; simp only at hr
      cases hrun : run ops r1.1 with
      | error e => rw [hrun] at hr; cases hr
      | ok r2 =>
        rw [hrun] at hr; simp only [pure, Except.pure] at hr
        injection hr with hr; subst hr
        obtain ⟨s1, hs1, hq1⟩ := sim_apply b h s hq op r1 ha
        obtain ⟨s2, hs2, hq2⟩ := ih _ (inv_apply b h op r1 ha) s1 hq1 r2 hrun
        exact ⟨s2, by simp only [Fifo.run_append, hs1, Option.bind, hs2], hq2⟩

/-- **No word is lost, duplicated or reordered.**  Take any history from `Reset` — sends,
flushes, resets, enable / period / clock-config writes, ticks and skips with any periods,
phases and queue fills — that does not abort.  Its observable log (words offered, flushes,
frames handed to the audio callback) is a behaviour of the reference FIFO: every offered word is
taken iff fewer than 16 are queued; every frame is exactly the two oldest queued words in order,
with zeros only for missing words, and removes exactly those words; a flush removes exactly the
queued words.  The port's queue is the reference queue, so

  (words that left, in order) ++ (words still queued) = (words accepted, in order),

and when the history contains no flush, the words that left are exactly the words played. -/
theorem fifo_no_loss (ops : List Op) (b0 : Btdmp) (r : Btdmp × List Ev)
    (hr : run ops (reset b0) = .ok r) :
    ∃ s : Fifo, Fifo.run r.2 {} = some s ∧ s.q = r.1.queue ∧
      s.gone ++ r.1.queue = s.accepted ∧ (Ev.flush ∉ r.2 → s.played ++ r.1.queue = s.accepted) := by
  obtain ⟨s, hs, hq⟩ := sim_run ops (reset b0) (inv_reset b0) {} rfl r hr
  have hc := Fifo.conservation r.2 {} s hs
  refine ⟨s, hs, hq, ?_, ?_⟩
  · rw [← hq]; exact hc.1 rfl
  · intro hn; rw [← hq, hc.2 hn rfl]; exact hc.1 rfl

/-! ### fast-forward inside arbitrary histories -/

/-- One operation under the fast-forward contract; `fast = true` executes `skip k` with
`Btdmp::Skip`, `fast = false` with `k` single ticks.  Outside the contract — reported as `oob`
by both variants — are: a skip beyond the horizon reported at that moment (`CoreTiming::Skip`
never asks for it), a skip over an infinite horizon that would wrap `transmit_timer + k` past
2^64, and a period write that does not keep `timer < period` (so `period = 0` is excluded too;
the facade never writes the period at all). -/
def step (fast : Bool) (b : Btdmp) : Op → R (Btdmp × List Frame × Nat)
  | .skip k =>
      if k ≤ maxSkip b ∧ (maxSkip b = infinity → b.timer.toNat + k < 2 ^ 64) then
        if fast then (skip b k).map fun r => (r.1, r.2, 0) else .ok (ticksCore k b)
      else .error .oob
  | .setPeriod v => if b.timer < v then .ok (setTransmitPeriod b v, [], 0) else .error .oob
  | op => apply b op

/-- Run a history under the contract: final state, all frames in order, total interrupts. -/
def runC (fast : Bool) : List Op → Btdmp → R (Btdmp × List Frame × Nat)
  | [], b => .ok (b, [], 0)
  | op :: ops, b => do
      let r ← step fast b op
      let r' ← runC fast ops r.1
      pure (r'.1, r.2.1 ++ r'.2.1, r.2.2 + r'.2.2)

private theorem ticksCore_inv_clk (k : Nat) : ∀ (b : Btdmp), Inv b → Clk b →
    Inv (ticksCore k b).1 ∧ Clk (ticksCore k b).1 := by
  induction k with
  | zero => intro b h1 h2; exact ⟨h1, h2⟩
  | succ k ih => intro b h1 h2; exact ih _ (inv_tick b h1) (clk_tick b h2)

private theorem clk_congr {b b' : Btdmp} (hp : b'.period = b.period) (ht : b'.timer = b.timer)
    (h : Clk b) : Clk b' := by
  unfold Clk at *; rw [hp, ht]; exact h

private theorem send_clk (b : Btdmp) (v : U16) : (send b v).period = b.period ∧ (send b v).timer = b.timer := by
  unfold send; split <;> simp

private theorem step_false_inv (b : Btdmp) (hi : Inv b) (hc : Clk b) (op : Op)
    (r : Btdmp × List Frame × Nat) (hr : step false b op = .ok r) : Inv r.1 ∧ Clk r.1 := by
  cases op with
  | skip k =>
    simp only [step] at hr
    split at hr
    · simp only [Bool.false_eq_true, if_false] at hr
      injection hr with hr; subst hr; exact ticksCore_inv_clk k b hi hc
    · cases hr
  | setPeriod v =>
    simp only [step] at hr
    split at hr
    · rename_i hlt
      injection hr with hr; subst hr
      refine ⟨inv_setPeriod b v hi, ?_⟩
      unfold Clk setTransmitPeriod; simp only []
      constructor <;> bv_omega
    · cases hr
  | reset =>
    injection hr with hr; subst hr
    exact ⟨inv_reset b, by show Clk ({} : Btdmp); decide⟩
  | send v =>
    injection hr with hr; subst hr
    exact ⟨inv_send b v hi, clk_congr (send_clk b v).1 (send_clk b v).2 hc⟩
  | flush v => injection hr with hr; subst hr; exact ⟨inv_flush b v, clk_congr rfl rfl hc⟩
  | setEnable v => injection hr with hr; subst hr; exact ⟨inv_setEnable b v hi, clk_congr rfl rfl hc⟩
  | setClock v => injection hr with hr; subst hr; exact ⟨inv_setClockConfig b v hi, clk_congr rfl rfl hc⟩
  | tick => injection hr with hr; subst hr; exact ⟨inv_tick b hi, clk_tick b hc⟩

private theorem step_fast_slow (b : Btdmp) (hi : Inv b) (hc : Clk b) (op : Op) :
    step true b op = step false b op := by
  cases op with
  | skip k =>
    simp only [step]
    split
    · rename_i hk
      have hs := skip_eq_ticks b hi hc k hk.1 hk.2
      simp only [if_true, Bool.false_eq_true, if_false, hs.1, Except.map]
      rw [show ticksCore k b = ((ticksCore k b).1, (ticksCore k b).2.1, (ticksCore k b).2.2) from rfl,
        hs.2]
    · rfl
  | _ => rfl

/-- **Fast-forward is unobservable in every history.**  Start from any state with exact flags and
a well-formed clock (e.g. after `Reset`).  Over any interleaving of sends, flushes, resets,
enable and clock-config writes, period writes that keep `timer < period`, ticks, and skips each
within the horizon reported at that moment, executing the skips with `Btdmp::Skip` or as single
ticks gives the same final state, the same frames in the same order, the same number of
interrupts and the same abort behaviour. -/
theorem run_fast_eq_slow (ops : List Op) : ∀ (b : Btdmp), Inv b → Clk b →
    runC true ops b = runC false ops b := by
  induction ops with
  | nil => intro b _ _; rfl
  | cons op ops ih =>
    intro b hi hc
    simp only [runC, step_fast_slow b hi hc op]
    cases h : step false b op with
    | error e => rfl
    | ok r =>
      have hw := step_false_inv b hi hc op r h
      simp only [bind, Except.bind, ih r.1 hw.1 hw.2]

/-- Under the contract no skip ever aborts: a contract run fails only with `oob`, i.e. only
because the history itself left the contract. -/
theorem runC_no_assert (fast : Bool) (ops : List Op) : ∀ (b : Btdmp), Inv b → Clk b →
    runC fast ops b ≠ .error .assert ∧ runC fast ops b ≠ .error .unimpl := by
  induction ops with
  | nil => intro b _ _; exact ⟨nofun, nofun⟩
  | cons op ops ih =>
    intro b hi hc
    have hfs : runC fast (op :: ops) b = runC false (op :: ops) b := by
      cases fast
      · rfl
      · exact run_fast_eq_slow _ b hi hc
    rw [hfs]
    simp only [runC]
    cases h : step false b op with
    | error e =>
      have : e = .oob := by
        cases op <;> simp only [step, apply] at h <;> (try split at h) <;> cases h <;> rfl
      subst this
      exact ⟨nofun, nofun⟩
    | ok r =>
      have hw := step_false_inv b hi hc op r h
      have := ih r.1 hw.1 hw.2
      have hfs' : runC fast ops r.1 = runC false ops r.1 := by
        cases fast
        · rfl
        · exact run_fast_eq_slow _ _ hw.1 hw.2
      rw [hfs'] at this
      simp only [bind, Except.bind]
      cases h2 : runC false ops r.1 with
      | error e => rw [h2] at this; exact ⟨fun h => this.1 (by injection h with h; rw [h]),
          fun h => this.2 (by injection h with h; rw [h])⟩
      | ok r2 => exact ⟨nofun, nofun⟩

/-- A history that runs under the contract with `Btdmp::Skip` is an ordinary history of the port
(same final state), so `flags_exact` and `fifo_no_loss` apply to it — and, by
`run_fast_eq_slow`, to the same history executed tick by tick. -/
theorem runC_sub_run (ops : List Op) : ∀ (b : Btdmp) (r : Btdmp × List Frame × Nat),
    runC true ops b = .ok r → ∃ log, run ops b = .ok (r.1, log) := by
  induction ops with
  | nil => intro b r h; injection h with h; subst h; exact ⟨[], rfl⟩
  | cons op ops ih =>
    intro b r h
    simp only [runC, bind, Except.bind] at h
    cases hs : step true b op with
    | error e => rw [hs] at h; cases h
    | ok r1 =>
      rw [hs] at h; simp only at h
      have ha : apply b op = .ok r1 := by
        cases op with
        | skip k => simp only [step] at hs; split at hs
                    · simpa [apply] using hs
                    · cases hs
        | setPeriod v => simp only [step] at hs; split at hs
                         · exact hs
                         · cases hs
        | _ => exact hs
      cases hr : runC true ops r1.1 with
      | error e => rw [hr] at h; cases h
      | ok r2 =>
        rw [hr] at h; simp only [pure, Except.pure] at h
        injection h with h; subst h
        obtain ⟨log, hl⟩ := ih _ _ hr
        exact ⟨evs op r1.2.1 ++ log, by simp only [run, bind, Except.bind, ha, hl, pure, Except.pure]⟩

/-! ## the excluded points are really excluded: proved witnesses -/

/-- Outside `Clk` (here: `timer ≥ period`, reachable only by lowering the period below the
running timer with `SetTransmitPeriod`, which nothing in the facade calls) fast-forward is *not*
exact: with period 4, timer 5 and three queued words the reported horizon is 4, yet `Skip(1)`
emits nothing (it silently restarts the timer at 0) while one `Tick` emits the frame (1, 2). -/
theorem skip_ne_ticks_timer_ge_period :
    let b : Btdmp := { period := 4, timer := 5, enable := 1, empty := false, queue := [1, 2, 3] }
    Inv b ∧ ¬ Clk b ∧ 1 ≤ maxSkip b ∧
    skip b 1 = .ok ({ b with timer := 1 }, []) ∧
    ticksCore 1 b = ({ b with timer := 0, queue := [3] }, [(1, 2)], 0) := by
  decide

/-- Over an infinite horizon the 64-bit sum `transmit_timer + ticks` wraps: with transmission on,
an empty queue and timer 1, `Skip(2^64 - 1)` — a length within the reported horizon `Infinity` —
emits no frame at all and leaves the timer at 0, whereas that many ticks emit 2^52 frames.
(Not executable on the real code in any useful time; `CoreTiming::Skip` is only ever called with
the emulator's remaining cycle budget.) -/
theorem skip_wrap_counterexample :
    let b : Btdmp := { enable := 1, timer := 1 }
    Inv b ∧ Clk b ∧ infinity ≤ maxSkip b ∧
    skip b infinity = .ok ({ b with timer := 0 }, []) ∧
    (ticksCore infinity b).2.1.length = 2 ^ 52 := by
  refine ⟨by decide, by decide, by decide, by decide, ?_⟩
  rw [frame_count _ (by decide) (by decide)]
  decide

/-- Beyond the horizon `Skip` trips its assertion: one cycle past the horizon is the frame that
empties the queue. -/
theorem skip_beyond_horizon_asserts :
    let b : Btdmp := { period := 4, timer := 1, enable := 1, empty := false, queue := [1, 2, 3] }
    Inv b ∧ Clk b ∧ maxSkip b = 6 ∧ skip b 7 = .error .assert := by
  decide

/-! ## non-vacuity: concrete states meeting the hypotheses -/

example : Inv { enable := 1, period := 3, timer := 2, empty := false, queue := [7, 8, 9] } ∧
    Clk { enable := 1, period := 3, timer := 2, empty := false, queue := [7, 8, 9] } ∧
    Due { enable := 1, period := 3, timer := 2, empty := false, queue := [7, 8, 9] } ∧
    maxSkip { enable := 1, period := 3, timer := 2, empty := false, queue := [7, 8, 9] } = 3 := by
  decide
example : ticksCore 4 { enable := 1, period := 3, timer := 2, empty := false, queue := [7, 8, 9] } =
    ({ enable := 1, period := 3, timer := 0, empty := true, queue := [] }, [(7, 8), (9, 0)], 1) := by
  decide
example : Inv (reset default) ∧ Clk (reset default) := by decide
example : (run [.send 5, .send 6, .send 7, .setEnable 1, .setPeriod 2, .tick, .tick, .flush 0,
      .send 9, .skip 1, .tick] (reset default)).toOption.map (·.2) =
    some [.send 5, .send 6, .send 7, .frame (5, 6), .flush, .send 9, .frame (9, 0)] := by decide
example : runC true [.send 5, .send 6, .send 7, .setEnable 1, .skip 4096, .tick] (reset default) =
    .ok ({ enable := 1, timer := 1, empty := false, queue := [7] }, [(5, 6)], 0) := by decide

end Teakra.Btdmp
