import Drive.Util
import TeakraModel.RegFile
import TeakraModel.ArDecode
import TeakraModel.Golden.RegLayout
/-!
Protocol driver of unit `regs` (pseudo-registers of `register.h`, property C20).

The model runs on the **committed snapshot** of the layout table (`Teakra.Regs.Golden.layouts`), so a
slot that moved in the tree under test shows up as a concrete `(word, value)` disagreement;
`Proofs/C20Golden.lean` proves the snapshot equal to the table the theorems are about.

State fill (`set`/`setraw`), digest and sweep definitions are mirrored verbatim in
`harness/u_regs.cpp`.
-/
namespace Drive
open Teakra Teakra.Regs Teakra.Regs.RegFile

/-- splitmix64, same as `vlib.Rng` -/
def sm64Next (x : UInt64) : UInt64 × UInt64 :=
  let x := x + 0x9E3779B97F4A7C15
  let z := x
  let z := (z ^^^ (z >>> 30)) * 0xBF58476D1CE4E5B9
  let z := (z ^^^ (z >>> 27)) * 0x94D049BB133111EB
  (x, z ^^^ (z >>> 31))

def mix (h x : UInt64) : UInt64 :=
  let h := (h ^^^ x) * 0x9E3779B97F4A7C15
  h ^^^ (h >>> 32)

def digest0 : UInt64 := 0xCBF29CE484222325

/-- sign extension from bit 39 of the low 40 bits -/
def sx40 (r : UInt64) : UInt64 :=
  let v := r &&& 0xFFFFFFFFFF
  if v &&& 0x8000000000 ≠ 0 then v ||| 0xFFFFFF0000000000 else v

/-- Members of `RegisterState` that no proxy can reach (`pc`, `rep`, `bkrep_stack[4].{start,end,lc}`,
`b[2]`, `a1s`, `b1s`, `p[2]`): carried along only so that `dump` shows them untouched. -/
structure RegsSt where
  rf : RegFile
  others : Array UInt64

def cellWidthArr : Array Nat := cellWidths.toArray

/-- The golden table with member names resolved, computed once. -/
def layoutsR : Array (String × List RSlot) :=
  (Golden.layouts.map (fun w => (w.1, w.2.map resolve))).toArray

def findWord (name : String) : Option (List RSlot) :=
  (layoutsR.find? (·.1 == name)).map (·.2)

/-- `set`/`setraw`: every cell in table order, then `a[0]`, `a[1]`, then the unreachable members. -/
def fill (seed : UInt64) (raw : Bool) : RegsSt := Id.run do
  let mut x := seed
  let mut regs : Array U16 := Array.mkEmpty nCells
  for c in [0:nCells] do
    let (x', r) := sm64Next x
    x := x'
    let bits := cellWidthArr[c]!
    let masked := r &&& ((1 <<< bits.toUInt64) - 1)
    let v := if raw && ((r >>> 56) &&& 3) == 0 then r &&& 0xFFFF else masked
    regs := regs.push (BitVec.ofNat 16 v.toNat)
  let (x1, r0) := sm64Next x
  let (x2, r1) := sm64Next x1
  x := x2
  let a0 := if raw then r0 else sx40 r0
  let a1 := if raw then r1 else sx40 r1
  let mut others : Array UInt64 := Array.mkEmpty 20
  -- pc, rep
  let (x3, rpc) := sm64Next x
  let (x4, rrep) := sm64Next x3
  x := x4
  others := (others.push (rpc &&& 0x3FFFF)).push (rrep &&& 1)
  for _ in [0:4] do
    let (xa, s) := sm64Next x
    let (xb, e) := sm64Next xa
    let (xc, l) := sm64Next xb
    x := xc
    others := ((others.push (s &&& 0x3FFFF)).push (e &&& 0x3FFFF)).push (l &&& 0xFFFF)
  for _ in [0:4] do
    let (xa, b) := sm64Next x
    x := xa
    others := others.push (sx40 b)
  for _ in [0:2] do
    let (xa, p) := sm64Next x
    x := xa
    others := others.push (p &&& 0xFFFFFFFF)
  return { rf := ⟨regs, BitVec.ofNat 64 a0.toNat, BitVec.ofNat 64 a1.toNat⟩, others := others }

/-- Both sides start from `set 0`. -/
instance : Inhabited RegsSt := ⟨fill 0 false⟩

/-- (digest of every member, `a[0..1]` and the unreachable members; the same extended by the 19 words
as read) -/
def stateDigest (st : RegsSt) : UInt64 × UInt64 := Id.run do
  let mut h := digest0
  for v in st.rf.regs do
    h := mix h v.toNat.toUInt64
  h := mix h st.rf.a0.toNat.toUInt64
  h := mix h st.rf.a1.toNat.toUInt64
  for o in st.others do
    h := mix h o
  let hm := h
  for w in layoutsR do
    h := mix h (getWordR w.2 st.rf).toNat.toUInt64
  return (hm, h)

def dumpRegs (st : RegsSt) : String :=
  " ".intercalate ((st.rf.regs.toList.map hexBV) ++ [hexBV st.rf.a0, hexBV st.rf.a1] ++
    (st.others.toList.map (fun o => hex o.toNat)) ++
    (layoutsR.toList.map (fun w => hexBV (getWordR w.2 st.rf))))

def cellNames : String :=
  " ".intercalate (cellKeys.map (fun k => s!"{k.1}[{k.2}]")) ++ " | " ++
  " ".intercalate (layoutsR.toList.map (·.1))

/-- For `v ∈ [lo, hi)`: `Set<word>(v)` on a copy of the state; digests over `v` of (word read back,
member digest) and of (word read back, member-and-words digest). -/
def sweepDigest (st : RegsSt) (rs : List RSlot) (lo hi : Nat) : UInt64 × UInt64 := Id.run do
  let mut hm := digest0
  let mut ha := digest0
  for v in [lo:hi] do
    let rf' := setWordR rs (BitVec.ofNat 16 v) st.rf
    let g := (getWordR rs rf').toNat.toUInt64
    let (dm, da) := stateDigest { st with rf := rf' }
    hm := mix (mix hm g) dm
    ha := mix (mix ha g) da
  return (hm, ha)

def strDigest (h : UInt64) (s : String) : UInt64 :=
  mix (s.foldl (fun h c => mix h c.toNat.toUInt64) h) 0xFF

/-- the interpreter's view (members set through the golden layout) rendered like the disassembler -/
def interpARS (rf : RegFile) (k : Nat) : String :=
  "[%r" ++ toString (rf.getF "arrn" k).toNat ++
    Dsm.offsetNames.getD (rf.getF "aroffset" k).toNat "?" ++ Dsm.stepNames.getD (rf.getF "arstep" k).toNat "?" ++ "]"

def interpARPSI (rf : RegFile) (k : Nat) : String :=
  "[%r" ++ toString (rf.getF "arprni" k).toNat ++
    Dsm.offsetNames.getD (rf.getF "arpoffseti" k).toNat "?" ++ Dsm.stepNames.getD (rf.getF "arpstepi" k).toNat "?" ++ "]"

def interpARPSJ (rf : RegFile) (k : Nat) : String :=
  "[%r" ++ toString ((rf.getF "arprnj" k).toNat + 4) ++
    Dsm.offsetNames.getD (rf.getF "arpoffsetj" k).toNat "?" ++ Dsm.stepNames.getD (rf.getF "arpstepj" k).toNat "?" ++ "]"

def arNames : Array String := #["ar0", "ar1"]
def arpNames : Array String := #["arp0", "arp1", "arp2", "arp3"]

/-- `ArArpSettings` of the sweeps: word `idx` holds `v`, every other word its complement. -/
def sweepSetting (idx : Nat) (v : Nat) : Nat → U16 :=
  fun i => if i = idx then BitVec.ofNat 16 v else ~~~(BitVec.ofNat 16 v)

/-- digest over `v` of the disassembler's tokens for operand values `k = 0..3` -/
def dsmSweep (isArp : Bool) (idx lo hi : Nat) : UInt64 := Id.run do
  let mut h := digest0
  for v in [lo:hi] do
    let w := sweepSetting idx v
    for k in [0:4] do
      if isArp then
        h := strDigest h (Dsm.memARPSI w k k)
        h := strDigest h (Dsm.memARPSJ w k k)
      else
        h := strDigest h (Dsm.memARS w k k)
  return h

/-- For `v ∈ [lo, hi)`: write `v` to `ar<idx>` / `arp<idx>` through the layout and compare the
interpreter's members with the disassembler's reading of the same word.  `none` = all agree. -/
def arCheck (isArp : Bool) (idx lo hi : Nat) : Option String := Id.run do
  let name := if isArp then arpNames[idx]! else arNames[idx]!
  let rs := (findWord name).getD []
  for v in [lo:hi] do
    let rf := setWordR rs (BitVec.ofNat 16 v) RegFile.zero
    let w : Nat → U16 := fun _ => BitVec.ofNat 16 v
    if isArp then
      let a := interpARPSI rf idx ++ " " ++ interpARPSJ rf idx
      let b := Dsm.memARPSI w idx idx ++ " " ++ Dsm.memARPSJ w idx idx
      if a != b then return some s!"DIFF v={hex v} interp={a} dsm={b}"
    else
      for k in [2 * idx : 2 * idx + 2] do
        let a := interpARS rf k
        let b := Dsm.memARS w k k
        if a != b then return some s!"DIFF v={hex v} k={k} interp={a} dsm={b}"
  return none

def regsStep (st : RegsSt) (args : List String) : RegsSt × String :=
  match args with
  | ["set", seed] =>
    match parseHex seed with
    | some n => (fill n.toUInt64 false, "ok")
    | none => (st, "bad-op")
  | ["setraw", seed] =>
    match parseHex seed with
    | some n => (fill n.toUInt64 true, "ok")
    | none => (st, "bad-op")
  | ["cells"] => (st, cellNames)
  | ["dump"] => (st, dumpRegs st)
  | ["get", w] =>
    match findWord w with
    | some rs => (st, hexBV (getWordR rs st.rf))
    | none => (st, "bad-op")
  | ["put", w, v] =>
    match findWord w, parseHex v with
    | some rs, some v =>
      let st' := { st with rf := setWordR rs (BitVec.ofNat 16 v) st.rf }
      let (dm, da) := stateDigest st'
      (st', s!"{hexBV (getWordR rs st'.rf)} {hex dm.toNat} {hex da.toNat}")
    | _, _ => (st, "bad-op")
  | ["check", w, v, wmask] =>
    -- the round-trip clause of the property, evaluated on the state as it is
    match findWord w, parseHex v, parseHex wmask with
    | some rs, some v, some m =>
      let st' := { st with rf := setWordR rs (BitVec.ofNat 16 v) st.rf }
      let g := (getWordR rs st'.rf).toNat
      (st', if g &&& m == (v % 65536) &&& m then "same" else s!"DIFF roundtrip wrote={hex v} read={hex g} mask={hex m}")
    | _, _, _ => (st, "bad-op")
  | ["sweep", w, lo, hi] =>
    match findWord w, parseHex lo, parseHex hi with
    | some rs, some lo, some hi =>
      let (hm, ha) := sweepDigest st rs lo hi
      (st, s!"{hex hm.toNat} {hex ha.toNat}")
    | _, _, _ => (st, "bad-op")
  | ["dsmar", k, j, a0, a1] =>
    match parseAll [k, j, a0, a1] with
    | some [k, j, a0, a1] =>
      if k < 4 ∧ j < 4 then
        (st, Dsm.memARS (fun i => BitVec.ofNat 16 (if i = 0 then a0 else a1)) k j)
      else (st, "bad-op")
    | _ => (st, "bad-op")
  | ["dsmarp", k, ji, jj, p0, p1, p2, p3] =>
    match parseAll [k, ji, jj, p0, p1, p2, p3] with
    | some [k, ji, jj, p0, p1, p2, p3] =>
      if k < 4 ∧ ji < 4 ∧ jj < 4 then
        let arp : Nat → U16 := fun i => BitVec.ofNat 16 (#[p0, p1, p2, p3].getD i 0)
        (st, Dsm.memARPSI arp k ji ++ " " ++ Dsm.memARPSJ arp k jj)
      else (st, "bad-op")
    | _ => (st, "bad-op")
  | ["dsmsweep", kind, idx, lo, hi] =>
    match parseAll [idx, lo, hi] with
    | some [idx, lo, hi] =>
      if kind == "ar" ∧ idx < 2 then (st, hex (dsmSweep false idx lo hi).toNat)
      else if kind == "arp" ∧ idx < 4 then (st, hex (dsmSweep true idx lo hi).toNat)
      else (st, "bad-op")
    | _ => (st, "bad-op")
  | ["archeck", kind, idx, lo, hi] =>
    match parseAll [idx, lo, hi] with
    | some [idx, lo, hi] =>
      if (kind == "ar" ∧ idx < 2) ∨ (kind == "arp" ∧ idx < 4) then
        (st, (arCheck (kind == "arp") idx lo hi).getD "same")
      else (st, "bad-op")
    | _ => (st, "bad-op")
  | _ => (st, "bad-op")

end Drive
