import Drive.Util
import TeakraModel.Btdmp
/-!
Protocol driver of the `btdmp` unit (model side); `harness/u_btdmp.cpp` is the same on the real
`Teakra::Btdmp`.

Canonical dump (all lower-case hex):
`ok <irq> <clock_config> <period> <timer> <enable> <empty> <full> <n> <n queue words, oldest first>
 <m> <a b for each of the first 64 frames emitted by this op>[ h<hash of all m frames> if m > 64]`.
-/
namespace Drive
open Teakra

/-- Rolling hash over all frames, used only when more than 64 frames are emitted by one op. -/
def framesHash (fs : List Frame) : Nat :=
  fs.foldl (fun h f => (h * 31 + f.1.toNat * 65536 + f.2.toNat) % 4294967296) 0

def dumpBtdmp (b : Btdmp) (frames : List Frame) (irq : Nat) : String :=
  let head := [hex irq, hexBV b.clockConfig, hexBV b.period, hexBV b.timer, hexBV b.enable,
    (if b.empty then "1" else "0"), (if b.full then "1" else "0"), hex b.queue.length]
  let q := b.queue.map hexBV
  let m := frames.length
  let fr := (frames.take 64).foldr (fun f acc => hexBV f.1 :: hexBV f.2 :: acc) []
  let tail := if m > 64 then ["h" ++ hex (framesHash frames)] else []
  " ".intercalate ("ok" :: head ++ q ++ [hex m] ++ fr ++ tail)

/-- Same derivation of a skip amount from the reported horizon as `PickK` in `harness/u_btdmp.cpp`.
0: 0, 1: min(1,h), 2: h, 3: h-1, 4: r mod (h+1), 5: h+1 (outside the contract); with an infinite
horizon modes 2..5 give `r`.  `check` keeps the tick loop affordable and inside the horizon; the
last clamp bounds the number of frames one op can emit (512). -/
def btdmpPickK (b : Btdmp) (mode r : Nat) (check : Bool) : Nat :=
  let inf := infinity
  let h := b.maxSkip
  let k := match mode with
    | 0 => 0
    | 1 => if h < 1 then h else 1
    | 2 => if h = inf then r else h
    | 3 => if h = inf then r else (if h = 0 then 0 else h - 1)
    | 4 => if h = inf then r else r % (h + 1)
    | _ => if h = inf then r else h + 1
  let k := if check then
      let k := if k > 0x12000 then r % 0x12001 else k
      if h ≠ inf ∧ k > h then h else k
    else k
  let p := b.period.toNat
  if b.enable ≠ 0 ∧ p ≠ 0 ∧ k / p > 512 then k % (512 * p) else k

/-- `k` ticks, collecting frames (reversed accumulator) and interrupts; tail recursive. -/
def btdmpTicksN : Nat → Btdmp → List Frame → Nat → Btdmp × List Frame × Nat
  | 0, b, acc, n => (b, acc.reverse, n)
  | k + 1, b, acc, n =>
    let r := b.tick
    btdmpTicksN k r.1 (r.2.1.reverse ++ acc) (n + r.2.2)

def mkQueue (ws : List Nat) : List U16 := ws.map (BitVec.ofNat 16)

def btdmpStep (b : Btdmp) (args : List String) : Btdmp × String :=
  match args with
  | "set" :: rest =>
    match parseAll rest with
    | some (cc :: pe :: ti :: en :: ws) =>
      let q := mkQueue ws
      ({ clockConfig := .ofNat 16 cc, period := .ofNat 16 pe, timer := .ofNat 16 ti,
         enable := .ofNat 16 en, empty := q.isEmpty, full := decide (q.length = 16), queue := q }, "ok")
    | _ => (b, "bad-op")
  | "new" :: rest =>
    match parseAll rest with
    | some (cc :: pe :: ti :: en :: e :: f :: ws) =>
      ({ clockConfig := .ofNat 16 cc, period := .ofNat 16 pe, timer := .ofNat 16 ti,
         enable := .ofNat 16 en, empty := e != 0, full := f != 0, queue := mkQueue ws }, "ok")
    | _ => (b, "bad-op")
  | ["reset"] => let b' := b.reset; (b', dumpBtdmp b' [] 0)
  | ["get"] =>
    (b, " ".intercalate [hexBV b.getTransmitClockConfig, hexBV b.getTransmitPeriod,
      hexBV b.getTransmitEnable, hexBV b.getTransmitEmpty, hexBV b.getTransmitFull,
      hexBV b.getTransmitFlush])
  | ["tick"] => let r := b.tick; (r.1, dumpBtdmp r.1 r.2.1 r.2.2)
  | ["maxskip"] => (b, hex b.maxSkip)
  | ["flush"] => let b' := b.setTransmitFlush 0; (b', dumpBtdmp b' [] 0)
  | [op, v] =>
    match parseHex v with
    | none => (b, "bad-op")
    | some v =>
      if op == "send" then let b' := b.send (.ofNat 16 v); (b', dumpBtdmp b' [] 0)
      else if op == "flush" then let b' := b.setTransmitFlush (.ofNat 16 v); (b', dumpBtdmp b' [] 0)
      else if op == "enable" then let b' := b.setTransmitEnable (.ofNat 16 v); (b', dumpBtdmp b' [] 0)
      else if op == "period" then let b' := b.setTransmitPeriod (.ofNat 16 v); (b', dumpBtdmp b' [] 0)
      else if op == "clock" then let b' := b.setTransmitClockConfig (.ofNat 16 v); (b', dumpBtdmp b' [] 0)
      else if op == "skip" then
        let k := v % 2 ^ 64
        if b.enable ≠ 0 ∧ b.period ≠ 0 ∧ k / b.period.toNat > 4096 then (b, "bad-op") else
        match b.skip k with
        | .ok r => (r.1, dumpBtdmp r.1 r.2 0)
        | .error e => (b, toString e)
      else (b, "bad-op")
  | [op, mode, r] =>
    if op ≠ "ff" ∧ op ≠ "ffcheck" then (b, "bad-op") else
    match parseHex mode, parseHex r with
    | some mode, some r =>
      let r := r % 2 ^ 64
      let check := op == "ffcheck"
      let k := btdmpPickK b mode r check
      match b.skip k with
      | .error e => (b, toString e)
      | .ok (b', fr) =>
        let a := dumpBtdmp b' fr 0
        if !check then (b', s!"k {hex k} {a}")
        else
          let (b'', fr'', n) := btdmpTicksN k b [] 0
          let c := dumpBtdmp b'' fr'' n
          if a == c then (b', s!"k {hex k} same {a}") else (b', s!"k {hex k} DIFF skip: {a} ticks: {c}")
    | _, _ => (b, "bad-op")
  | _ => (b, "bad-op")

end Drive
