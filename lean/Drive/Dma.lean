import Std.Data.HashMap
import Drive.Util
import TeakraModel.Ahbm
import TeakraModel.Dma
/-!
Protocol driver of unit `dma` (DMA engine + AHB master + DSP memory + external memory).
Same ops and answers as `harness/u_dma.cpp`.

Memory patterns (identical in the harness): DSP word with array index `a` (0…0x3FFFF) is the low
16 bits of `splitmix64(seed + a)`; external byte at address `a` is the low 8 bits of
`splitmix64(seed + 2^32 + a)`, overlaid by the bytes written so far.
-/
namespace Drive.DmaDrive
open Drive
open Teakra

def splitmix (x : UInt64) : UInt64 :=
  let z := x + 0x9E3779B97F4A7C15
  let z := (z ^^^ (z >>> 30)) * 0xBF58476D1CE4E5B9
  let z := (z ^^^ (z >>> 27)) * 0x94D049BB133111EB
  z ^^^ (z >>> 31)

def dspPattern (seed : UInt64) (a : Nat) : U16 :=
  BitVec.ofNat 16 ((splitmix (seed + UInt64.ofNat a)) &&& 0xFFFF).toNat

def extPattern (seed : UInt64) (a : Nat) : BitVec 8 :=
  BitVec.ofNat 8 ((splitmix (seed + 0x100000000 + UInt64.ofNat a)) &&& 0xFF).toNat

/-- External memory: seed-defined background overlaid by written bytes. -/
structure HExt where
  seed : UInt64 := 0
  ov : Std.HashMap Nat (BitVec 8) := {}

instance : ExtMem HExt where
  read8 e a := match e.ov[a.toNat]? with
    | some v => v
    | none => extPattern e.seed a.toNat
  write8 e a v := { e with ov := e.ov.insert a.toNat v }

abbrev DW := World ArrMem HExt

structure DmaSt where
  seed : UInt64 := 0
  dma : Dma := {}
  w : DW := { mem := { arr := #[] }, ext := {} }

def fnvInit : UInt64 := 0xcbf29ce484222325
@[inline] def fnvByte (h : UInt64) (b : UInt64) : UInt64 := (h ^^^ (b &&& 0xFF)) * 0x100000001b3

def fnvLE (h : UInt64) (v : UInt64) (bytes : Nat) : UInt64 := Id.run do
  let mut h := h
  let mut v := v
  for _ in [0:bytes] do
    h := fnvByte h v
    v := v >>> 8
  return h

def memDigest (m : ArrMem) : UInt64 :=
  m.arr.foldl (fun h v => let x := UInt64.ofNat v.toNat; fnvByte (fnvByte h x) (x >>> 8)) fnvInit

def evDigest (evs : List ExtEvent) : UInt64 :=
  evs.foldl (fun h e =>
    let h := fnvByte h (match e.kind with | .read => 0 | .write => 1)
    let h := fnvByte h (UInt64.ofNat e.width)
    let h := fnvLE h (UInt64.ofNat e.addr.toNat) 4
    fnvLE h (UInt64.ofNat e.value.toNat) 4) fnvInit

def showEv (e : ExtEvent) : String :=
  (match e.kind with | .read => "r" | .write => "w") ++ toString e.width ++ ":" ++ hexBV e.addr ++ ":" ++ hexBV e.value

def showEvs (evs : List ExtEvent) : String := " ".intercalate (evs.map showEv)

def hex64 (v : UInt64) : String := hex v.toNat

/-- Number of ticks of the pure cursor machine (bounded). -/
def countTicks : Nat → DmaChannel → Nat → Nat
  | 0, _, n => n
  | f + 1, c, n => if c.running = 0 then n else countTicks f c.advance (n + 1)

def chanDump (c : DmaChannel) : String :=
  " ".intercalate [hexBV c.currentSrc, hexBV c.currentDst, hexBV c.counter0, hexBV c.counter1,
    hexBV c.counter2, hexBV c.running, hexBV c.ahbmChannel]

/-- Answer of a finished transfer: irq count, DSP reads, DSP writes, number of external
accesses, digest of the ordered access log of this transfer, digest of the whole DSP memory,
final cursor state of the channel, first accesses. -/
def xferAnswer (st : DmaSt) (ch : Nat) (fuel : Nat) (r : R (Dma × DW × Nat)) (oldLog : Nat) : DmaSt × String :=
  match r with
  | .error e => (st, toString e)
  | .ok (d, w, irq) =>
    let c0 := (st.dma.channels[ch]!).start
    let nt := countTicks fuel c0 0
    let per := if c0.dwordMode ≠ 0 then 2 else 1
    let dr := if c0.srcSpace = 0 then nt * per else 0
    let dw := if c0.dstSpace = 0 then nt * per else 0
    let evs := (w.log.take (w.log.length - oldLog)).reverse
    let s := s!"ok {irq} {hex dr} {hex dw} {hex evs.length} {hex64 (evDigest evs)} {hex64 (memDigest w.mem)} {chanDump d.channels[ch]!} | {showEvs (evs.take 6)}"
    ({ st with dma := d, w := { w with log := [] } }, s)

def regSet (d : Dma) (r : Nat) (v : U16) : Option (R Dma) :=
  match r with
  | 0 => some (.ok (d.enableChannelSet v))
  | 1 => some (.ok (d.activateChannel v))
  | 2 => some (d.setAddrSrcLow v) | 3 => some (d.setAddrSrcHigh v)
  | 4 => some (d.setAddrDstLow v) | 5 => some (d.setAddrDstHigh v)
  | 6 => some (d.setSize0 v) | 7 => some (d.setSize1 v) | 8 => some (d.setSize2 v)
  | 9 => some (d.setSrcStep0 v) | 10 => some (d.setDstStep0 v)
  | 11 => some (d.setSrcStep1 v) | 12 => some (d.setDstStep1 v)
  | 13 => some (d.setSrcStep2 v) | 14 => some (d.setDstStep2 v)
  | 15 => some (d.setSrcSpace v) | 16 => some (d.setDstSpace v)
  | 17 => some (d.setDwordMode v) | 18 => some (d.setY v)
  | _ => none

def regGet (d : Dma) (r : Nat) : Option (R U16) :=
  match r with
  | 0 => some (.ok d.getChannelEnabled)
  | 1 => some (.ok d.getActiveChannel)
  | 2 => some d.getAddrSrcLow | 3 => some d.getAddrSrcHigh
  | 4 => some d.getAddrDstLow | 5 => some d.getAddrDstHigh
  | 6 => some d.getSize0 | 7 => some d.getSize1 | 8 => some d.getSize2
  | 9 => some d.getSrcStep0 | 10 => some d.getDstStep0
  | 11 => some d.getSrcStep1 | 12 => some d.getDstStep1
  | 13 => some d.getSrcStep2 | 14 => some d.getDstStep2
  | 15 => some d.getSrcSpace | 16 => some d.getDstSpace
  | 17 => some d.getDwordMode | 18 => some d.getY | 19 => some d.getZ
  | _ => none

def applyCfg (d : Dma) (ch : Nat) (vs : List Nat) : R Dma := do
  let mut d := d.activateChannel (.ofNat 16 ch)
  let mut r := 2
  for v in vs do
    match regSet d r (.ofNat 16 v) with
    | some x => d ← x
    | none => pure ()
    r := r + 1
  return d

/-! ### the property evaluated directly: transfer vs straightforward in-order copy -/

structure RefSt where
  mem : ArrMem
  ext : HExt

/-- Value of one source element for the reference copy (`none`: outside the stated domain). -/
def refRead (c : DmaChannel) (s : RefSt) (src : U32) : Option U32 :=
  let dw := c.dwordMode ≠ 0
  if c.srcSpace = 0 then
    if dw then
      match dspIndex (src &&& 0xFFFFFFFE), dspIndex (src ||| 1) with
      | some il, some ih => some ((DspMem.read s.mem ih ++ DspMem.read s.mem il : U32))
      | _, _ => none
    else
      match dspIndex src with
      | some i => some ((DspMem.read s.mem i).setWidth 32)
      | none => none
  else if c.srcSpace = 7 then
    if dw then (if src &&& 3 = 0 then some ((ExtMem.reader s.ext).read32 src) else none)
    else (if src &&& 1 = 0 then some (((ExtMem.reader s.ext).read16 src).setWidth 32) else none)
  else none

/-- Store of one destination element for the reference copy (`s` is used linearly, so the array
is updated in place). -/
def refWrite (c : DmaChannel) (s : RefSt) (dst : U32) (value : U32) : Option RefSt :=
  let dw := c.dwordMode ≠ 0
  if c.dstSpace = 0 then
    if dw then
      match dspIndex (dst &&& 0xFFFFFFFE), dspIndex (dst ||| 1) with
      | some il, some ih =>
        let ⟨mem, ext⟩ := s
        some ⟨DspMem.write (DspMem.write mem il (value.setWidth 16)) ih ((value >>> 16).setWidth 16), ext⟩
      | _, _ => none
    else
      match dspIndex dst with
      | some i =>
        let ⟨mem, ext⟩ := s
        some ⟨DspMem.write mem i (value.setWidth 16), ext⟩
      | none => none
  else if c.dstSpace = 7 then
    if dw then
      (if dst &&& 3 = 0 then
        let ⟨mem, ext⟩ := s
        some ⟨mem, ExtMem.apply ext ⟨.write, 32, dst, value⟩⟩ else none)
    else
      (if dst &&& 1 = 0 then
        let ⟨mem, ext⟩ := s
        some ⟨mem, ExtMem.apply ext ⟨.write, 16, dst, value &&& 0xFFFF⟩⟩ else none)
  else none

/-- Reference copy of one element (`none`: outside the stated domain). -/
def refElem (c : DmaChannel) (s : RefSt) (src dst : U32) : Option RefSt :=
  match refRead c s src with
  | none => none
  | some value => refWrite c s dst value

/-- The documented rule (`dma.md`): three nested counters, the step of the dimension that advances
is added to the cursor. -/
partial def refLoop (c : DmaChannel) (n0 n1 n2 k0 k1 k2 : Nat) (src dst : U32) (s : RefSt) : Option RefSt :=
  match refElem c s src dst with
  | none => none
  | some s' =>
    if k0 + 1 < n0 then
      refLoop c n0 n1 n2 (k0 + 1) k1 k2 (src + c.srcStep0.setWidth 32) (dst + c.dstStep0.setWidth 32) s'
    else if k1 + 1 < n1 then
      refLoop c n0 n1 n2 0 (k1 + 1) k2 (src + c.srcStep1.setWidth 32) (dst + c.dstStep1.setWidth 32) s'
    else if k2 + 1 < n2 then
      refLoop c n0 n1 n2 0 0 (k2 + 1) (src + c.srcStep2.setWidth 32) (dst + c.dstStep2.setWidth 32) s'
    else some s'

def refCopy (c : DmaChannel) (s : RefSt) : Option RefSt :=
  refLoop c c.n0 c.n1 c.n2 0 0 0 (c.addrSrcHigh ++ c.addrSrcLow) (c.addrDstHigh ++ c.addrDstLow) s

/-- Bytes of the overlay that differ from the background, sorted: canonical external content. -/
def extCanon (e : HExt) : List (Nat × Nat) :=
  let l := e.ov.toList.filter (fun (a, v) => v ≠ extPattern e.seed a)
  (l.map fun (a, v) => (a, v.toNat)).toArray.qsort (fun x y => x.1 < y.1) |>.toList

def extCanonDigest (e : HExt) : UInt64 :=
  (extCanon e).foldl (fun h (a, v) => fnvByte (fnvLE h (UInt64.ofNat a) 4) (UInt64.ofNat v)) fnvInit

def initSt (seed : UInt64) : DmaSt :=
  let arr := Array.ofFn (n := 0x40000) fun i => dspPattern seed i.val
  { seed := seed, dma := {}, w := { mem := { arr := arr }, ahbm := {}, ext := { seed := seed }, log := [] } }

def dmaStep (st0 : DmaSt) (args : List String) : DmaSt × String :=
  -- like the harness, an op before any `init` works on `init 0`
  let st := if st0.w.mem.arr.size = 0 ∧ args.head? ≠ some "init" then initSt 0 else st0
  match args with
  | ["init", seed] =>
    match parseHex seed with
    | some sd => (initSt (UInt64.ofNat sd), "ok")
    | none => (st, "bad-op")
  | "cfg" :: rest =>
    match parseAll rest with
    | some (ch :: vs) =>
      if ch < 8 ∧ vs.length = 16 then
        match applyCfg st.dma ch vs with
        | .ok d => ({ st with dma := d }, "ok")
        | .error e => (st, toString e)
      else (st, "bad-op")
    | _ => (st, "bad-op")
  | "ahbm" :: rest =>
    match parseAll rest with
    | some [i, u, b, dr, m] =>
      if i < 3 then
        let a := st.w.ahbm
        let c := { a.getCh i with unitSize := .ofNat 16 u, burstSize := .ofNat 16 b, direction := .ofNat 16 dr,
                                  dmaChannel := .ofNat 16 m }
        ({ st with w := { st.w with ahbm := a.setCh i c } }, "ok")
      else (st, "bad-op")
    | _ => (st, "bad-op")
  | ["start", ch] =>
    match parseHex ch with
    | some ch =>
      if ch < 8 then
        let fuel := 1 <<< 22
        xferAnswer st ch fuel (st.dma.doDmaFuel fuel st.w (.ofNat 16 ch)) st.w.log.length
      else (st, "bad-op")
    | none => (st, "bad-op")
  | ["startn", ch, n] =>
    match parseHex ch, parseHex n with
    | some ch, some n =>
      if ch < 8 then xferAnswer st ch n (st.dma.doDmaFuel n st.w (.ofNat 16 ch)) st.w.log.length
      else (st, "bad-op")
    | _, _ => (st, "bad-op")
  | ["startcheck", ch] =>
    match parseHex ch with
    | some ch =>
      if ch < 8 then
        let c := st.dma.channels[ch]!
        let a := st.w.ahbm.getCh (st.w.ahbm.getChannelForDma ch).toNat
        let unitOk := (c.srcSpace ≠ 7 ∧ c.dstSpace ≠ 7) ∨ a.unitSize = (if c.dwordMode ≠ 0 then 2 else 1)
        match (if unitOk then refCopy c { mem := st.w.mem, ext := st.w.ext } else none) with
        | none => (st, "skip")
        | some ref =>
          match st.dma.doDmaFuel (1 <<< 22) st.w (.ofNat 16 ch) with
          | .error e => (st, toString e)
          | .ok (d, w, irq) =>
            let m1 := memDigest w.mem
            let m2 := memDigest ref.mem
            let e1 := extCanonDigest w.ext
            let e2 := extCanonDigest ref.ext
            let q := (w.ahbm.getCh (st.w.ahbm.getChannelForDma ch).toNat).burstQueue.length
            let bad := (if m1 ≠ m2 then " mem" else "") ++ (if e1 ≠ e2 then " ext" else "") ++
              (if irq ≠ 1 then " irq" else "")
            let st' := { st with dma := d, w := { w with log := [] } }
            if bad = "" then (st', s!"same {hex64 m1} {hex64 e1} q={q}")
            else (st', s!"DIFF{bad} got {hex64 m1} {hex64 e1} q={q} want {hex64 m2} {hex64 e2}")
      else (st, "bad-op")
    | none => (st, "bad-op")
  | ["peek", a] =>
    match parseHex a with
    | some a => if a < 0x40000 then (st, hexBV (DspMem.read st.w.mem (.ofNat 32 a))) else (st, "bad-op")
    | none => (st, "bad-op")
  | ["xpeek", a] =>
    match parseHex a with
    | some a => (st, hexBV (ExtMem.read8 st.w.ext (.ofNat 32 a)))
    | none => (st, "bad-op")
  | ["rreg", r] =>
    match parseHex r with
    | some r =>
      match regGet st.dma r with
      | some (.ok v) => (st, hexBV v)
      | some (.error e) => (st, toString e)
      | none => (st, "bad-op")
    | none => (st, "bad-op")
  | ["wreg", r, v] =>
    match parseHex r, parseHex v with
    | some r, some v =>
      if r = 1 ∧ v ≥ 8 then (st, "bad-op")
      else if r = 19 then
        if st.dma.activeChannel.toNat < 8 then
          let ch := st.dma.activeChannel.toNat
          match st.dma.setZ st.w (.ofNat 16 v) with
          | .error e => (st, toString e)
          | .ok (d, w, irq) =>
            if v = 0x40C0 then
              -- the answer is computed against the channel as it was configured before the start
              xferAnswer st ch (1 <<< 22) (.ok (d, w, irq)) st.w.log.length
            else ({ st with dma := d, w := w }, "ok")
        else (st, "oob")
      else
        match regSet st.dma r (.ofNat 16 v) with
        | some (.ok d) => ({ st with dma := d }, "ok")
        | some (.error e) => (st, toString e)
        | none => (st, "bad-op")
    | _, _ => (st, "bad-op")
  | ["rawactive", v] =>
    match parseHex v with
    | some v => ({ st with dma := st.dma.activateChannel (.ofNat 16 v) }, "ok")
    | none => (st, "bad-op")
  | ["dmareset"] => ({ st with dma := st.dma.reset }, "ok")
  | ["ahbmreset"] => ({ st with w := { st.w with ahbm := st.w.ahbm.reset } }, "ok")
  | ["aget", i, f] =>
    match parseHex i, parseHex f with
    | some i, some f =>
      if i < 3 then
        let c := st.w.ahbm.getCh i
        match f with
        | 0 => (st, hexBV c.unitSize) | 1 => (st, hexBV c.burstSize)
        | 2 => (st, hexBV c.direction) | 3 => (st, hexBV c.dmaChannel)
        | 4 => (st, hex c.burstQueue.length) | 5 => (st, hexBV c.writeBurstStart)
        | 6 => (st, hexBV st.w.ahbm.getBusyFlag)
        | _ => (st, "bad-op")
      else (st, "bad-op")
    | _, _ => (st, "bad-op")
  | ["aset", i, f, v] =>
    match parseHex i, parseHex f, parseHex v with
    | some i, some f, some v =>
      if i < 3 then
        let a := st.w.ahbm
        let i16 : U16 := .ofNat 16 i
        let v16 : U16 := .ofNat 16 v
        let r := match f with
          | 0 => some (a.setUnitSize i16 v16) | 1 => some (a.setBurstSize i16 v16)
          | 2 => some (a.setDirection i16 v16) | 3 => some (a.setDmaChannel i16 v16)
          | _ => none
        match r with
        | some (.ok a') => ({ st with w := { st.w with ahbm := a' } }, "ok")
        | some (.error e) => (st, toString e)
        | none => (st, "bad-op")
      else (st, "bad-op")
    | _, _, _ => (st, "bad-op")
  | ["chfordma", ch] =>
    match parseHex ch with
    | some ch => if ch < 8 then (st, hexBV (st.w.ahbm.getChannelForDma ch)) else (st, "bad-op")
    | none => (st, "bad-op")
  | [op, i, a] =>
    match parseHex i, parseHex a with
    | some i, some a =>
      if i ≥ 3 then (st, "bad-op") else
      let rd := ExtMem.reader st.w.ext
      if op = "ar16" then
        match st.w.ahbm.read16 rd (.ofNat 16 i) (.ofNat 32 a) with
        | .ok (a', v, ev) => ({ st with w := { st.w.commit a' ev with log := [] } }, s!"{hexBV v} | {showEvs ev}")
        | .error e => (st, toString e)
      else if op = "ar32" then
        match st.w.ahbm.read32 rd (.ofNat 16 i) (.ofNat 32 a) with
        | .ok (a', v, ev) => ({ st with w := { st.w.commit a' ev with log := [] } }, s!"{hexBV v} | {showEvs ev}")
        | .error e => (st, toString e)
      else (st, "bad-op")
    | _, _ => (st, "bad-op")
  | [op, i, a, v] =>
    match parseHex i, parseHex a, parseHex v with
    | some i, some a, some v =>
      if i ≥ 3 then (st, "bad-op") else
      if op = "aw16" then
        match st.w.ahbm.write16 (.ofNat 16 i) (.ofNat 32 a) (.ofNat 16 v) with
        | .ok (a', ev) => ({ st with w := { st.w.commit a' ev with log := [] } }, s!"ok | {showEvs ev}")
        | .error e => (st, toString e)
      else if op = "aw32" then
        match st.w.ahbm.write32 (.ofNat 16 i) (.ofNat 32 a) (.ofNat 32 v) with
        | .ok (a', ev) => ({ st with w := { st.w.commit a' ev with log := [] } }, s!"ok | {showEvs ev}")
        | .error e => (st, toString e)
      else (st, "bad-op")
    | _, _, _ => (st, "bad-op")
  | _ => (st, "bad-op")

end Drive.DmaDrive
