import TeakraModel.Basic
/-! Line-protocol helpers shared by the unit drivers: lower-case hex in and out. -/
namespace Drive
open Teakra

def hexDigit (c : Char) : Option Nat :=
  if '0' ≤ c ∧ c ≤ '9' then some (c.toNat - '0'.toNat)
  else if 'a' ≤ c ∧ c ≤ 'f' then some (c.toNat - 'a'.toNat + 10)
  else if 'A' ≤ c ∧ c ≤ 'F' then some (c.toNat - 'A'.toNat + 10)
  else none

def parseHex (s : String) : Option Nat :=
  if s.isEmpty then none
  else s.foldl (fun acc c => match acc, hexDigit c with
    | some a, some d => some (a * 16 + d)
    | _, _ => none) (some 0)

def hexChars : Array Char := #['0','1','2','3','4','5','6','7','8','9','a','b','c','d','e','f']

partial def hexAux (n : Nat) (acc : List Char) : List Char :=
  if n < 16 then hexChars[n]! :: acc else hexAux (n / 16) (hexChars[n % 16]! :: acc)

def hex (n : Nat) : String := String.ofList (hexAux n [])

def hexBV {w : Nat} (v : BitVec w) : String := hex v.toNat

/-- Parse all arguments as hex numbers; `none` if any is malformed. -/
def parseAll (xs : List String) : Option (List Nat) := xs.mapM parseHex

def showR {α : Type} (f : α → String) : R α → String
  | .ok a => f a
  | .error e => toString e

end Drive
