import Drive.Util
import TeakraModel.Decode
import TeakraModel.Golden.DecodeTable
/-!
Unit `dec`: the decode table.

* `dec dec <w> <e>`       → `<index> <name> <signature> <expanded 0/1> <raw operand values…>` |
                            `undefined` | `assert` (two entries match: `Decode<V>` ASSERTs)
* `dec gdec <w> <e>`      → the same over the committed golden table (the pinned encoding)
* `dec consumers <w>`     → `same <name> <expanded>`: what every consumer of `Decode<V>` must report
* `dec count`             → number of table entries;  `dec reset` → `ok` (the unit is stateless)

`signature` is the C++ parameter type list of the selected visitor overload (`-` if empty); a value
handed over as `RegName` (`AtNamed`) is printed as the enumerator's integer value.
-/
namespace Drive
open Teakra Teakra.Decode

structure DecodeTables where
  table : List Pat
  operandTypes : List (String × Nat × List String)
  operandEnum : List (String × String)
  cnTypes : List (String × String × Nat)
  enums : List (String × List String)

def generatedTables : DecodeTables :=
  { table := Decode.table, operandTypes := Decode.operandTypes, operandEnum := Decode.operandEnum,
    cnTypes := Decode.cnTypes, enums := Decode.enums }

def goldenTables : DecodeTables :=
  { table := Golden.table, operandTypes := Golden.operandTypes, operandEnum := Golden.operandEnum,
    cnTypes := Golden.cnTypes, enums := Golden.enums }

/-- C++ parameter type of a passed operand. -/
def paramType (T : DecodeTables) (o : Operand) : Option String :=
  if o.kind == "Unused" then none
  else if o.kind == "Cn" then some (((T.cnTypes.find? (·.1 == o.ty)).map (·.2.1)).getD "?")
  else if o.kind == "AtNamed" then some ((T.operandEnum.lookup o.ty).getD "?")
  else some o.ty

/-- The value as the visitor sees it: raw storage, except `AtNamed`, which hands over `GetName()`. -/
def paramValue (T : DecodeTables) (o : Operand) (raw : Nat) : Nat :=
  if o.kind == "AtNamed" then
    match T.operandTypes.find? (·.1 == o.ty), T.operandEnum.lookup o.ty with
    | some (_, _, names), some en =>
      match names[raw]?, T.enums.lookup en with
      | some nm, some es => es.findIdx (· == nm)
      | _, _ => 0xFFFF
    | _, _ => 0xFFFF
  else raw

def decLine (T : DecodeTables) (w e : Nat) : String :=
  let wv := BitVec.ofNat 16 w
  let c := matchCount T.table wv
  if c = 0 then "undefined"
  else if c > 1 then "assert"
  else
    match decodeIdxIn T.table wv, decodeIn T.table wv with
    | some i, some p =>
      let ps := p.operands.filter (fun o => !o.isUnused)
      let sig := ",".intercalate (ps.filterMap (paramType T))
      let raws := p.extract wv (BitVec.ofNat 16 e)
      let vals := (ps.zip raws).map (fun (o, r) => hex (paramValue T o r))
      " ".intercalate ([hex i, p.name, if sig.isEmpty then "-" else sig, if p.expanded then "1" else "0"] ++ vals)
    | _, _ => "undefined"

def consumersLine (T : DecodeTables) (w : Nat) : String :=
  let wv := BitVec.ofNat 16 w
  let c := matchCount T.table wv
  if c > 1 then "assert"
  else match decodeIn T.table wv with
    | some p => s!"same {p.name} {if p.expanded then 1 else 0}"
    | none => "same * 0"

def decodeStep (args : List String) : String :=
  match args with
  | ["reset"] => "ok"
  | ["count"] => hex Decode.table.length
  | ["dec", w, e] =>
    match parseHex w, parseHex e with
    | some w, some e => decLine generatedTables w e
    | _, _ => "bad-op"
  | ["gdec", w, e] =>
    match parseHex w, parseHex e with
    | some w, some e => decLine goldenTables w e
    | _, _ => "bad-op"
  | ["consumers", w] =>
    match parseHex w with
    | some w => consumersLine generatedTables w
    | none => "bad-op"
  | _ => "bad-op"

end Drive
