import Drive.Util
import TeakraModel.Icu
/-!
Protocol driver of unit `icu` (`src/icu.h`).  Response of every op: `<ret> <events> <dump>` with
`<events>` = `-` or a comma list of `i<line>` / `v<address>:<context>` in callback order and
`<dump>` = `request enabled0 enabled1 enabled2 vectored_enabled`.
`set` defines every field (the C++ constructor leaves the three vector tables uninitialised):
`set <request> <en0> <en1> <en2> <ven> <low×16> <high×16> <context×16>`.
-/
namespace Drive
open Teakra

def showIcuEvents (evs : List IcuEvent) : String :=
  if evs.isEmpty then "-" else
  ",".intercalate (evs.map fun
    | .interrupt line => s!"i{line.val}"
    | .vectored a c => s!"v{hexBV a}:{c.toNat}")

def dumpIcu (s : Icu) : String :=
  " ".intercalate [hexBV s.getRequest, hexBV (s.getEnable 0), hexBV (s.getEnable 1),
    hexBV (s.getEnable 2), hexBV s.getEnableVectored]

private def replyIcu (s : Icu) (ret : Nat) (evs : List IcuEvent) : String :=
  s!"{hex ret} {showIcuEvents evs} {dumpIcu s}"

private def vec16 (xs : List Nat) : Vector U16 16 :=
  Vector.ofFn fun i => BitVec.ofNat 16 (xs.getD i.val 0)

def icuStep (s : Icu) (args : List String) : Icu × String :=
  match args with
  | "set" :: rest =>
    match parseAll rest with
    | some (req :: e0 :: e1 :: e2 :: ven :: tables) =>
      if tables.length ≠ 48 then (s, "bad-op") else
      let s' : Icu :=
        { request := .ofNat 16 req, enabled := #v[.ofNat 16 e0, .ofNat 16 e1, .ofNat 16 e2],
          vectoredEnabled := .ofNat 16 ven, vectorLow := vec16 (tables.take 16),
          vectorHigh := vec16 ((tables.drop 16).take 16),
          vectorContextSwitch := vec16 (tables.drop 32) }
      (s', replyIcu s' 0 [])
    | _ => (s, "bad-op")
  | ["req"] => (s, replyIcu s s.getRequest.toNat [])
  | ["getack"] => (s, replyIcu s s.getAcknowledge.toNat [])
  | ["gettrig"] => (s, replyIcu s s.getTrigger.toNat [])
  | ["getven"] => (s, replyIcu s s.getEnableVectored.toNat [])
  | [op, x] =>
    match parseHex x with
    | none => (s, "bad-op")
    | some x =>
      match op with
      | "ack" => let s' := s.acknowledge (.ofNat 16 x); (s', replyIcu s' 0 [])
      | "trig" => let r := s.trigger (.ofNat 16 x); (r.1, replyIcu r.1 0 r.2)
      | "single" =>
        match s.triggerSingle x with
        | .ok r => (r.1, replyIcu r.1 0 r.2)
        | .error e => (s, toString e)
      | "ven" => let s' := s.setEnableVectored (.ofNat 16 x); (s', replyIcu s' 0 [])
      | "geten" =>
        match s.getEnableN x with
        | .ok v => (s, replyIcu s v.toNat [])
        | .error e => (s, toString e)
      | "vec" =>
        match s.getVectorN x with
        | .ok v => (s, replyIcu s v.toNat [])
        | .error e => (s, toString e)
      | _ => (s, "bad-op")
  | ["en", i, b] =>
    match parseHex i, parseHex b with
    | some i, some b =>
      match s.setEnableN i (.ofNat 16 b) with
      | .ok s' => (s', replyIcu s' 0 [])
      | .error e => (s, toString e)
    | _, _ => (s, "bad-op")
  | _ => (s, "bad-op")

end Drive
