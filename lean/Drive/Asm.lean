import Drive.Util
import TeakraModel.Asm
import TeakraModel.CDo
/-!
Unit `asm`: the assembler's parser over token lists supplied by the caller, and the C binding's copy.

* `asm reset`                              → `ok`; empty trie (`ParserImpl` just constructed)
* `asm add <opcode> <expansion 0/1> <token>…` → one iteration of the `GenerateParser` loop:
                                             `ok` (node marked) | `dup` (already marked, ASSERT held) |
                                             `skip` (`[ERROR]` token) | `assert` (ASSERT fired; sticky until `reset`)
* `asm parse <token>…`                     → `invalid` | `valid <opcode>` | `expansion <opcode>` | `assert`
* `asm cdo <dstlen> <canary> <text hex|->` → `ret=<hex> buf=<dstlen bytes|-> oob=<off:val,…|->`, the bytes the
                                             C binding leaves behind, under `cdoFixed` below
* `asm cdocur …` / `asm cdofix …`          → the same under the current / the intended semantics explicitly
* `asm cdonull <dstlen> <text hex|->`      → `ret=<hex>` (`dst == NULL`)

Tokens are escaped as in `harness/u_dis.cpp`: `%XX` for bytes ≤ 0x20, ≥ 0x7f and `%`; `%e` is the empty token.
-/
namespace Drive
open Teakra Teakra.Asm Teakra.CDo

/-- Which `Teakra_Disasm_Do` the tree under test is expected to have: `true` = the intended behaviour
(`cDoFixed`, what `cDo_bounds` is proved about); `false` = the code as it was found (`cDo`).  This is the
single switch; `checks/c05.py` compares the real code with `asm cdo`. -/
def cdoFixed : Bool := true

structure AsmSt where
  root : R Node := .ok Node.empty

def unescAux : List Char → List Char → Option (List Char)
  | [], acc => some acc.reverse
  | '%' :: a :: b :: rest, acc =>
    match hexDigit a, hexDigit b with
    | some x, some y => unescAux rest (Char.ofNat (x * 16 + y) :: acc)
    | _, _ => none
  | '%' :: _, _ => none
  | c :: rest, acc => unescAux rest (c :: acc)

def unescToken (t : String) : Option String :=
  if t == "%e" then some "" else (unescAux t.toList []).map String.ofList

def parseLine (root : R Node) (toks : List String) : String :=
  match root with
  | .error e => toString e
  | .ok r =>
    let o := parse r toks
    match o.status with
    | .invalid => "invalid"
    | .valid => "valid " ++ hexBV o.opcode
    | .validWithExpansion => "expansion " ++ hexBV o.opcode

def hex2 (v : UInt8) : String :=
  String.ofList [hexChars[v.toNat / 16]!, hexChars[v.toNat % 16]!]

def parseBytes (s : String) : Option (List UInt8) :=
  if s == "-" then some [] else
  let rec go : List Char → List UInt8 → Option (List UInt8)
    | [], acc => some acc.reverse
    | a :: b :: rest, acc =>
      match hexDigit a, hexDigit b with
      | some x, some y => go rest (UInt8.ofNat (x * 16 + y) :: acc)
      | _, _ => none
    | _, _ => none
  go s.toList []

/-- Same memory layout as `CDo` in `harness/u_dis.cpp`: `guard = max 64 (len + 8)` canary bytes on both sides
of the caller's `dstlen` bytes, everything filled with the canary byte. -/
def cdoLine (fixed : Bool) (dstlen : Nat) (canary : UInt8) (text : List UInt8) : String :=
  let guard := max 64 (text.length + 8)
  let m : Mem := { pre := List.replicate guard canary, buf := List.replicate (dstlen + guard) canary }
  let (ret, m') := if fixed then cDoFixed m false dstlen text else cDo m false dstlen text
  if m'.oob then "oob-model"
  else
    let buf := String.join ((m'.buf.take dstlen).map hex2)
    let below := (List.range guard).reverse.filterMap fun j =>
      let v := m'.pre.getD j canary
      if v != canary then some s!"-{j + 1}:{hex2 v}" else none
    let above := (List.range guard).filterMap fun j =>
      let v := m'.buf.getD (dstlen + j) canary
      if v != canary then some s!"{dstlen + j}:{hex2 v}" else none
    let oob := ",".intercalate (below ++ above)
    s!"ret={hex ret} buf={if buf.isEmpty then "-" else buf} oob={if oob.isEmpty then "-" else oob}"

def asmStep (st : AsmSt) (args : List String) : AsmSt × String :=
  match args with
  | ["reset"] => ({}, "ok")
  | "add" :: o :: x :: toks =>
    match parseHex o, parseHex x, toks.mapM unescToken with
    | some o, some x, some toks =>
      match st.root with
      | .error e => (st, toString e)
      | .ok r =>
        let en : Entry := { opcode := BitVec.ofNat 16 o, tokens := toks, expansion := x != 0 }
        match step r en with
        | .error e => ({ root := .error e }, toString e)
        | .ok r' =>
          let resp := if !en.renderable then "skip"
            else if (parse r toks).status != .invalid then "dup" else "ok"
          ({ root := .ok r' }, resp)
    | _, _, _ => (st, "bad-op")
  | "parse" :: toks =>
    match toks.mapM unescToken with
    | some toks => (st, parseLine st.root toks)
    | none => (st, "bad-op")
  | ["cdonull", dstlen, text] =>
    match parseHex dstlen, parseBytes text with
    | some n, some t =>
      (st, s!"ret={hex ((if cdoFixed then cDoFixed else cDo) { pre := [], buf := [] } true n t).1}")
    | _, _ => (st, "bad-op")
  | [op, dstlen, canary, text] =>
    if op == "cdo" || op == "cdocur" || op == "cdofix" then
      match parseHex dstlen, parseHex canary, parseBytes text with
      | some n, some c, some t =>
        let fixed := if op == "cdo" then cdoFixed else op == "cdofix"
        (st, cdoLine fixed n (UInt8.ofNat c) t)
      | _, _, _ => (st, "bad-op")
    else (st, "bad-op")
  | _ => (st, "bad-op")

end Drive
