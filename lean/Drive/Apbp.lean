import Drive.Util
import TeakraModel.Apbp
import TeakraModel.Icu
/-!
Protocol drivers of the mailbox / semaphore block.

* unit `apbp`: one stand-alone `Apbp` object.  Response of every op:
  `<ret> <events> <dump>` with `<events>` = `-` or a comma list of `d0 d1 d2 s` (handler calls in
  order) and `<dump>` = `ready data disable` of the three channels, then `semaphore mask signal`
  (all through the public getters on the C++ side).
  `semsetcheck / semclearcheck / semmaskcheck / sigcheck` additionally evaluate the property on
  the implementation (flag = (semaphore & ~mask) != 0 after the op; handler called if the flag
  rose; not called if it stayed zero) and prefix the answer with `same` or `DIFF:<what>`.  The
  model side of that verdict is the proved theorem (`Apbp.signal_eq` &c.): always `same`.
* unit `apbpsys`: the two `Apbp` instances as wired into `Teakra::Impl`: host API of
  `teakra.cpp` (`h…` ops) and the DSP-side MMIO cells `0x0C0`–`0x0D8` (`mr` / `mw`), plus ICU
  request (`mr 200`) and acknowledge (`mw 202 v`) to observe the interrupt line 0xE.
-/
namespace Drive
open Teakra

/-- Which `Apbp::MaskSemaphore` the tree under test is expected to have: `false` = the pinned
upstream code (stores the mask only), `true` = the repaired code (recomputes
`semaphore_master_signal` and calls the handler when it rises). -/
def apbpMaskFixed : Bool := true

def showApbpEvents (evs : List ApbpEvent) : String :=
  if evs.isEmpty then "-" else
  ",".intercalate (evs.map fun
    | .data ch => s!"d{ch.val}"
    | .semaphore => "s")

def dumpApbp (a : Apbp) : String :=
  " ".intercalate ((List.finRange 3).flatMap (fun (i : Fin 3) =>
      [hex (a.isDataReady i).toNat, hexBV (a.peekData i), hexBV (a.getDisableInterrupt i)]) ++
    [hexBV a.getSemaphore, hexBV a.getSemaphoreMask, hex a.isSemaphoreSignaled.toNat])

private def reply (a : Apbp) (ret : Nat) (evs : List ApbpEvent) : String :=
  s!"{hex ret} {showApbpEvents evs} {dumpApbp a}"

def apbpStep (a : Apbp) (args : List String) : Apbp × String :=
  match args with
  | ["new"] => let a' : Apbp := {}; (a', reply a' 0 [])
  | ["reset"] => let a' := a.reset; (a', reply a' 0 [])
  | ["sigcheck"] => (a, s!"same {reply a 0 []}")
  | ["semget"] => (a, reply a a.getSemaphore.toNat [])
  | ["maskget"] => (a, reply a a.getSemaphoreMask.toNat [])
  | ["signaled"] => (a, reply a a.isSemaphoreSignaled.toNat [])
  | [op, x] =>
    match parseHex x with
    | none => (a, "bad-op")
    | some x =>
      let sem (chk : Bool) (r : Apbp × List ApbpEvent) : Apbp × String :=
        (r.1, (if chk then "same " else "") ++ reply r.1 0 r.2)
      let chan {α : Type} (r : R α) (f : α → Apbp × String) : Apbp × String :=
        match r with
        | .ok v => f v
        | .error e => (a, toString e)
      match op with
      | "semset" => sem false (a.setSemaphore (.ofNat 16 x))
      | "semsetcheck" => sem true (a.setSemaphore (.ofNat 16 x))
      | "semclear" => sem false (a.clearSemaphore (.ofNat 16 x), [])
      | "semclearcheck" => sem true (a.clearSemaphore (.ofNat 16 x), [])
      | "semmask" => sem false (a.maskSemaphoreGen apbpMaskFixed (.ofNat 16 x))
      | "semmaskcheck" => sem true (a.maskSemaphoreGen apbpMaskFixed (.ofNat 16 x))
      | "recv" => chan (a.recvDataN x) fun r => (r.1, reply r.1 r.2.toNat [])
      | "peek" => chan (a.peekDataN x) fun v => (a, reply a v.toNat [])
      | "ready" => chan (a.isDataReadyN x) fun v => (a, reply a v.toNat [])
      | "getdis" => chan (a.getDisableInterruptN x) fun v => (a, reply a v.toNat [])
      | _ => (a, "bad-op")
  | [op, c, v] =>
    match parseHex c, parseHex v with
    | some c, some v =>
      match op with
      | "send" =>
        match a.sendDataN c (.ofNat 16 v) with
        | .ok r => (r.1, reply r.1 0 r.2)
        | .error e => (a, toString e)
      | "setdis" =>
        match a.setDisableInterruptN c (.ofNat 16 v) with
        | .ok a' => (a', reply a' 0 [])
        | .error e => (a, toString e)
      | _ => (a, "bad-op")
    | _, _ => (a, "bad-op")
  | _ => (a, "bad-op")

/-! ## `apbpsys`: both instances behind the host API and the MMIO cells -/

structure ApbpSys where
  cpu : Apbp := {}
  dsp : Apbp := {}
  icu : Icu := {}
  d4  : U16 := 0
  d6  : U16 := 0
  d8  : U16 := 0

/-- Handlers of `apbp_from_cpu` are `icu.TriggerSingle(0xE)` (`Teakra::Impl::Impl`); with all ICU
enables zero that only sets the request bit. -/
def sysCpuEvents (s : ApbpSys) (evs : List ApbpEvent) : ApbpSys :=
  evs.foldl (fun s _ => { s with icu := (s.icu.trigger (Icu.singleBit 0xE)).1 }) s

def dumpSys (s : ApbpSys) : String :=
  " ".intercalate ((List.finRange 3).map (fun i => hex (hostSendDataIsEmpty s.cpu i).toNat) ++
    (List.finRange 3).map (fun i => hex (hostRecvDataIsReady s.dsp i).toNat) ++
    [hexBV s.dsp.getSemaphore, hexBV (statusD6 s.d6 s.cpu s.dsp), hexBV (statusD8 s.d8 s.cpu s.dsp),
     hexBV s.cpu.getSemaphore, hexBV s.cpu.getSemaphoreMask, hexBV (configD4 s.d4 s.cpu),
     hexBV s.icu.getRequest])

private def replySys (s : ApbpSys) (ret : Nat) (evs : List ApbpEvent) : String :=
  s!"{hex ret} {showApbpEvents evs} {dumpSys s}"

/-- MMIO read of one cell in the APBP range (`none`: not part of this slice). -/
def sysRead (s : ApbpSys) (addr : Nat) : Option (ApbpSys × U16) :=
  if h : addr = 0xC0 ∨ addr = 0xC4 ∨ addr = 0xC8 then
    some (s, s.dsp.peekData ⟨(addr - 0xC0) / 4, by omega⟩)
  else if h : addr = 0xC2 ∨ addr = 0xC6 ∨ addr = 0xCA then
    let r := s.cpu.recvData ⟨(addr - 0xC2) / 4, by omega⟩
    some ({ s with cpu := r.1 }, r.2)
  else match addr with
    | 0xCC => some (s, s.dsp.getSemaphore)
    | 0xCE => some (s, s.cpu.getSemaphoreMask)
    | 0xD0 => some (s, 0)
    | 0xD2 => some (s, s.cpu.getSemaphore)
    | 0xD4 => some (s, configD4 s.d4 s.cpu)
    | 0xD6 => some (s, statusD6 s.d6 s.cpu s.dsp)
    | 0xD8 => some (s, statusD8 s.d8 s.cpu s.dsp)
    | 0x200 => some (s, s.icu.getRequest)
    | 0x202 => some (s, s.icu.getAcknowledge)
    | _ => none

/-- MMIO write; the events are the host-visible handler calls (those of `apbp_from_dsp`). -/
def sysWrite (s : ApbpSys) (addr : Nat) (v : U16) : Option (ApbpSys × List ApbpEvent) :=
  if h : addr = 0xC0 ∨ addr = 0xC4 ∨ addr = 0xC8 then
    let r := s.dsp.sendData ⟨(addr - 0xC0) / 4, by omega⟩ v
    some ({ s with dsp := r.1 }, r.2)
  else if addr = 0xC2 ∨ addr = 0xC6 ∨ addr = 0xCA ∨ addr = 0xD2 then some (s, [])
  else match addr with
    | 0xCC => let r := s.dsp.setSemaphore v; some ({ s with dsp := r.1 }, r.2)
    | 0xCE =>
      let r := s.cpu.maskSemaphoreGen apbpMaskFixed v
      some (sysCpuEvents { s with cpu := r.1 } r.2, [])
    | 0xD0 => some ({ s with cpu := s.cpu.clearSemaphore v }, [])
    | 0xD4 => some ({ s with cpu := writeD4 s.cpu v, d4 := v }, [])
    | 0xD6 => some ({ s with d6 := v }, [])
    | 0xD8 => some ({ s with d8 := v }, [])
    | 0x202 => some ({ s with icu := s.icu.acknowledge v }, [])
    | _ => none

def apbpSysStep (s : ApbpSys) (args : List String) : ApbpSys × String :=
  match args with
  | ["new"] => let s' : ApbpSys := {}; (s', replySys s' 0 [])
  | ["statcheck"] => (s, s!"same {replySys s 0 []}")
  | ["hsemget"] => (s, replySys s s.dsp.getSemaphore.toNat [])
  | [op, x] =>
    match parseHex x with
    | none => (s, "bad-op")
    | some x =>
      let chan {α : Type} (r : R α) (f : α → ApbpSys × String) : ApbpSys × String :=
        match r with
        | .ok v => f v
        | .error e => (s, toString e)
      match op with
      | "mr" =>
        match sysRead s x with
        | some (s', v) => (s', replySys s' v.toNat [])
        | none => (s, "bad-op")
      | "hempty" => chan (s.cpu.isDataReadyN x) fun v => (s, replySys s (!v).toNat [])
      | "hready" => chan (s.dsp.isDataReadyN x) fun v => (s, replySys s v.toNat [])
      | "hrecv" => chan (s.dsp.recvDataN x) fun r =>
          let s' := { s with dsp := r.1 }; (s', replySys s' r.2.toNat [])
      | "hpeek" => chan (s.dsp.peekDataN x) fun v => (s, replySys s v.toNat [])
      | "hsemset" =>
        let r := s.cpu.setSemaphore (.ofNat 16 x)
        let s' := sysCpuEvents { s with cpu := r.1 } r.2
        (s', replySys s' 0 [])
      | "hsemclear" => let s' := { s with dsp := s.dsp.clearSemaphore (.ofNat 16 x) }; (s', replySys s' 0 [])
      | "hsemmask" =>
        let r := s.dsp.maskSemaphoreGen apbpMaskFixed (.ofNat 16 x)
        let s' := { s with dsp := r.1 }
        (s', replySys s' 0 r.2)
      | _ => (s, "bad-op")
  | [op, c, v] =>
    match parseHex c, parseHex v with
    | some c, some v =>
      match op with
      | "hsend" =>
        match s.cpu.sendDataN c (.ofNat 16 v) with
        | .ok r => let s' := sysCpuEvents { s with cpu := r.1 } r.2; (s', replySys s' 0 [])
        | .error e => (s, toString e)
      | "mw" =>
        match sysWrite s c (.ofNat 16 v) with
        | some (s', evs) => (s', replySys s' 0 evs)
        | none => (s, "bad-op")
      | _ => (s, "bad-op")
    | _, _ => (s, "bad-op")
  | _ => (s, "bad-op")

end Drive
