import Drive.Util
import TeakraModel.Interp
/-! Protocol unit `alu`: the arithmetic / addressing helpers called directly (mirror of
`harness/u_alu.cpp`). -/
namespace Drive
open Teakra

def aluStep (args : List String) : String :=
  match args with
  | op :: rest =>
    match parseAll rest with
    | none => "bad-op"
    | some vs =>
      match op, vs with
      | "addsub", [a, b, sub, fvl] =>
        let o := Alu.addSub (.ofNat 64 a) (.ofNat 64 b) (sub != 0)
        let fvl' : Nat := if o.fv != 0 then 1 else fvl % 2 ^ 16
        s!"{hexBV o.result} {hexBV o.fc0} {hexBV o.fv} {hex fvl'}"
      | "flags", [v] =>
        let f := Alu.accFlags (.ofNat 64 v)
        s!"{hexBV f.fz} {hexBV f.fm} {hexBV f.fe} {hexBV f.fn}"
      | "sat", [v, flm] =>
        let (r, s) := Alu.saturate (.ofNat 64 v)
        s!"{hexBV r} {hex (if s then 1 else flm % 2 ^ 16)}"
      | "shift", [v, sv, s, sata, fv, fvl, flm] =>
        let regs : Regs := { s := .ofNat 16 s, sata := .ofNat 16 sata, fv := .ofNat 16 fv,
                             fvl := .ofNat 16 fvl, flm := .ofNat 16 flm }
        match ((Interp.shiftBus40 (.ofNat 64 v) (.ofNat 16 sv) .a0).run { regs := regs } : Except Stop (Unit × Core)) with
        | .ok (_, c) =>
          let r := c.regs
          s!"{hexBV r.a[0]} {hexBV r.fc0} {hexBV r.fv} {hexBV r.fvl} {hexBV r.flm} {hexBV r.fz} {hexBV r.fm} {hexBV r.fe} {hexBV r.fn}"
        | .error _ => "assert"
      | "exp", [v] => hexBV (Alu.exp (.ofNat 64 v))
      | "mul", [x, y, hwm, unit, xs, ys] =>
        let (p, pe) := Alu.multiply (.ofNat 16 x) (.ofNat 16 y) (.ofNat 16 hwm) (unit % 2) (xs != 0) (ys != 0)
        s!"{hexBV p} {hexBV pe}"
      | "p2b", [p, pe, ps] => hexBV (Alu.productToBus40 (.ofNat 32 p) (.ofNat 16 pe) (.ofNat 16 ps))
      | "step", [unit, address, step, dmod, cmd, stp16, m, br, modx, stepx, stepx0, epi, epj] =>
        let unit := unit % 8
        let r0 : Regs := { cmd := .ofNat 16 cmd, stp16 := .ofNat 16 stp16, epi := .ofNat 16 epi, epj := .ofNat 16 epj }
        let r1 : Regs := { r0 with m := Interp.vset r0.m unit (.ofNat 16 m), br := Interp.vset r0.br unit (.ofNat 16 br),
                                   r := Interp.vset r0.r unit (.ofNat 16 address) }
        let r2 : Regs := if unit < 4 then { r1 with modi := .ofNat 16 modx, stepi := .ofNat 16 stepx, stepi0 := .ofNat 16 stepx0 }
                         else { r1 with modj := .ofNat 16 modx, stepj := .ofNat 16 stepx, stepj0 := .ofNat 16 stepx0 }
        let sv : StepValue := match step % 8 with
          | 0 => .zero | 1 => .increase | 2 => .decrease | 3 => .plusStep | 4 => .increase2Mode1
          | 5 => .decrease2Mode1 | 6 => .increase2Mode2 | _ => .decrease2Mode2
        let prog : Exec (U16 × U16) := do
          let ret ← Interp.rnAndModify unit sv (dmod != 0)
          let addr ← Interp.rnAddress unit ret
          pure (ret, addr)
        match (prog.run { regs := r2 } : Except Stop ((U16 × U16) × Core)) with
        | .ok ((ret, addr), c) => s!"{hexBV ret} {hexBV addr} {hexBV (c.regs.r.toArray.getD unit 0)}"
        | .error _ => "assert"
      | "bitrev", [v] => hexBV (Alu.bitReverse (.ofNat 16 v))
      | _, _ => "bad-op"
  | [] => "bad-op"

end Drive
