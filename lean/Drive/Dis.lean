import Drive.Util
import TeakraModel.DisasmTop
/-!
Unit `dis`: the disassembler model (`Generated/DisasmTable.lean`, translated from `src/disassembler.cpp`, over the
interpreter model's decode look-up).  Same requests and answers as `harness/u_dis.cpp`:

* `dis reset`                                   → `ok`
* `dis tok <w> <e> [ar0 ar1 arp0 arp1 arp2 arp3]` → `n=<count> <token>…` (tokens escaped: bytes ≤ 0x20, ≥ 0x7f and `%`
                                                  as `%XX`, the empty token as `%e`) | `empty`
* `dis do <w> <e>`                              → the joined text as lower-case hex bytes (`-` if empty)
* `dis need <w>`                                → `0` / `1`
-/
namespace Drive
open Teakra

def upHex2 (n : Nat) : String :=
  let d (k : Nat) : Char := if k < 10 then Char.ofNat (48 + k) else Char.ofNat (55 + k)
  String.ofList [d (n / 16 % 16), d (n % 16)]

def escToken (t : String) : String :=
  if t.isEmpty then "%e"
  else t.foldl (fun acc c =>
    let n := c.toNat
    if n ≤ 0x20 || n ≥ 0x7f || c == '%' then acc ++ "%" ++ upHex2 n else acc.push c) ""

def hexBytes (s : String) : String :=
  if s.isEmpty then "-"
  else s.foldl (fun acc c =>
    let n := c.toNat
    acc.push (Dis.hexDigitChar (n / 16 % 16)) |>.push (Dis.hexDigitChar (n % 16))) ""

def disStep (args : List String) : String :=
  match args with
  | ["reset"] => "ok"
  | "tok" :: rest =>
    match parseAll rest with
    | some [w, e] =>
      let v := disTokens w e none
      if v.isEmpty then "empty" else "n=" ++ hex v.length ++ v.foldl (fun acc t => acc ++ " " ++ escToken t) ""
    | some [w, e, a0, a1, p0, p1, p2, p3] =>
      let s : ArArp := { ar := [a0, a1].map (BitVec.ofNat 16), arp := [p0, p1, p2, p3].map (BitVec.ofNat 16) }
      let v := disTokens w e (some s)
      if v.isEmpty then "empty" else "n=" ++ hex v.length ++ v.foldl (fun acc t => acc ++ " " ++ escToken t) ""
    | _ => "bad-op"
  | ["do", w, e] =>
    match parseHex w, parseHex e with
    | some w, some e =>
      let v := disTokens w e none
      if v.isEmpty then "assert-empty" else hexBytes (Dis.joinTokens v)
    | _, _ => "bad-op"
  | ["need", w] =>
    match parseHex w with
    | some w => (match decodeInstr (w % 65536) with | some p => if p.expanded then "1" else "0" | none => "0")
    | none => "bad-op"
  | _ => "bad-op"

end Drive
