import Drive.Util
import TeakraModel.Timer
namespace Drive
open Teakra

def dumpTimer (t : Timer) : String :=
  " ".intercalate [hexBV t.updateMmio, hexBV t.pause, hexBV t.countMode, hexBV t.scale,
    hexBV t.startHigh, hexBV t.startLow, hexBV t.counter, hexBV t.counterHigh, hexBV t.counterLow]

/-- Which `Timer::Skip` the tree under test is expected to have (`true` after the `fix:` commit). -/
def timerSkipFixed : Bool := true

/-- Same derivation of a skip amount from the reported horizon as `PickK` in `harness/u_timer.cpp`. -/
def pickK (h mode r : Nat) (check : Bool) : Nat :=
  let inf := infinity
  let k := match mode with
    | 0 => 0
    | 1 => if h < 1 then h else 1
    | 2 => if h = inf then r else h
    | 3 => if h = inf then r else (if h = 0 then 0 else h - 1)
    | 4 => if h = inf then r else r % (h + 1)
    | _ => if h = inf then r else h + 1
  if check then
    let k := if k > 4096 then r % 4097 else k
    if h ≠ inf ∧ k > h then h else k
  else k

/-- `k` guarded ticks, counting interrupts (tail recursive for the driver). -/
def ticksN : Nat → Timer → Nat → R (Timer × Nat)
  | 0, t, n => .ok (t, n)
  | k + 1, t, n =>
    match t.tick with
    | .ok (t', irq) => ticksN k t' (n + irq.toNat)
    | .error e => .error e

def timerStep (t : Timer) (args : List String) : Timer × String :=
  match args with
  | "set" :: rest =>
    match parseAll rest with
    | some [um, pa, cm, sc, sh, sl, ctr, ch, cl] =>
      ({ updateMmio := .ofNat 16 um, pause := .ofNat 16 pa, countMode := .ofNat 16 cm,
         scale := .ofNat 16 sc, startHigh := .ofNat 16 sh, startLow := .ofNat 16 sl,
         counter := .ofNat 32 ctr, counterHigh := .ofNat 16 ch, counterLow := .ofNat 16 cl }, "ok")
    | _ => (t, "bad-op")
  | ["reset"] => let t' := t.reset; (t', s!"ok 0 {dumpTimer t'}")
  | ["tick"] =>
    match t.tick with
    | .ok (t', irq) => (t', s!"ok {irq.toNat} {dumpTimer t'}")
    | .error e => (t, toString e)
  | ["event"] => let (t', irq) := t.tickEvent; (t', s!"ok {irq.toNat} {dumpTimer t'}")
  | ["restart"] =>
    match t.restart with
    | .ok t' => (t', s!"ok 0 {dumpTimer t'}")
    | .error e => (t, toString e)
  | ["maxskip"] => (t, hex t.maxSkip)
  | ["skip", k] =>
    match parseHex k with
    | some k =>
      match Timer.skipGen timerSkipFixed t k with
      | .ok t' => (t', s!"ok 0 {dumpTimer t'}")
      | .error e => (t, toString e)
    | none => (t, "bad-op")
  | [op, mode, r] =>
    if op ≠ "ff" ∧ op ≠ "ffcheck" then (t, "bad-op") else
    match parseHex mode, parseHex r with
    | some mode, some r =>
      let check := op == "ffcheck"
      let k := pickK t.maxSkip mode r check
      match Timer.skipGen timerSkipFixed t k with
      | .error e => (t, toString e)
      | .ok t' =>
        if !check then (t', s!"k {hex k} ok 0 {dumpTimer t'}")
        else
          match ticksN k t 0 with
          | .error e => (t, toString e)
          | .ok (t'', n) =>
            let a := s!"ok 0 {dumpTimer t'}"
            let b := s!"ok {hex n} {dumpTimer t''}"
            if a == b then (t', s!"k {hex k} same {a}") else (t', s!"k {hex k} DIFF skip: {a} ticks: {b}")
    | _, _ => (t, "bad-op")
  | _ => (t, "bad-op")

end Drive
