import Drive.Util
import Drive.Dma
import TeakraModel.Bus
import TeakraModel.MmioKinds
import TeakraModel.Sys
import Drive.Interp
/-!
Protocol driver of unit `bus`: the model side of `harness/u_bus.cpp` (a real `Teakra::Teakra`).

Answers: `<result> | <events>` and, for the memory accessors, `<result> | <events> | <accesses>`.
`<events>`: `-` or a comma list in emission order of `i<line>` (SignalInterrupt), `v<addr>:<ctx>`
(SignalVectoredInterrupt), `a<l>:<r>` (audio frame), `d<ch>` / `s` (host handlers of
apbp_from_dsp), `x<r|w><width>:<addr>:<value>` (external-memory callback).
`<accesses>`: `-` or a comma list of `r<byte>` / `w<byte>:<value>` (memory-observer hook).

Ops (all numbers hex):
* `new own|user [seed]` fresh `Teakra` with internally owned / user supplied memory; with a seed
  the 0x40000 words are filled with `low16(splitmix64(seed * 0x100000 + word))`; the external
  memory behind the AHBM is `low8(splitmix64(seed + 2^32 + addr))` overlaid by writes.  All ICU
  vector cells are then written with 0 (the constructor leaves them uninitialised).
* `rst` = `Teakra::Reset` (deliberately not called `reset`: it is *not* a resync op, it leaves the
  ICU and the MMIO storage alone).
* `mr off`, `mw off v` host `MMIORead/MMIOWrite` (any 16-bit address); `dr a bypass`,
  `dw a v bypass`, `pr a`, `pw a v`, `ar a`, `aw a v`, `raw byte`, `rawset byte v`.
* host API: `send i v`, `recv i`, `peek i`, `ready i`, `empty i`, `semset v`, `semclr v`,
  `semmask v`, `semget`, `hr16 a`, `hr32 a`, `hw16 a v`, `hw32 a v`, `srchi`, `dsthi`,
  `ausz i`, `adir i`, `adma i`.
* `tick`, `ticks n`, `skip max` (`CoreTiming::Tick` / `Skip`), `btperiod i v`, `tstate`.
* `latch` reads and clears the interrupt latches of the interpreter
  (`ip0 ip1 ip2 vpend vctx vaddr`, the last two only meaningful when `vpend`).
* `digest`: FNV-1a over `MMIORead(off)` of every offset except the RecvData FIFO cells
  0xC2/0xC6/0xCA (3 bytes per cell; 0x10000 for a DMA-window cell while `active_channel ≥ 8`).
* `memdigest`: FNV-1a over the 0x80000 bytes.
* `kind off`: the classification tables of `TeakraModel/MmioKinds.lean` (model only; read by checks/c12.py).
* `wcheck path off v`: snapshot of every side-effect-free read, one write (`path` 0: host
  `MMIOWrite` at mirror `(v ^ off) & 31`; 1: DSP `DataWrite(mmio_base + off)`), snapshot again:
  `ok | events | <read-back through the same path> | <off:old>new of every other offset that changed>`.
* `wincheck addr v` (addr inside the MMIO window): `DataWrite(addr, v)` must leave the 0x80000 bytes
  alone; `DataRead(addr, bypass)` must return the word underneath; `DataWrite(addr, ~v, bypass)` must
  change that word only and must not change the register's read-back.
* `viewcheck path word v`, `mirrorcheck off`: the property evaluated on the implementation
  (`same` / `DIFF…`); the model side performs the same accesses and answers `same` (proved).
-/
namespace Drive.BusDrive
open Drive Drive.DmaDrive
open Teakra

/-- The unit's state is the whole machine: the bus, the interpreter's interrupt latches and (for the
system-level ops `gen`, `poke`, `run`, `steps`, `state`) the register file and idle flag. -/
abbrev BusSt := Core

def showEvent : PEvent → String
  | .irq l => s!"i{hex l}"
  | .virq a c => s!"v{hexBV a}:{hex c.toNat}"
  | .audio l r => s!"a{hexBV l}:{hexBV r}"
  | .recvHandler ch => s!"d{hex ch}"
  | .semHandler => "s"
  | .ext e => "x" ++ showEv e

def showEvents (evs : List PEvent) : String :=
  if evs.isEmpty then "-" else ",".intercalate (evs.map showEvent)

def showAccess (a : Access) : String :=
  if a.isWrite then s!"w{hex a.byteAddr}:{hexBV a.value}" else s!"r{hex a.byteAddr}"

def showAccesses (as : List Access) : String :=
  if as.isEmpty then "-" else ",".intercalate (as.map showAccess)

/-- `Processor::SignalInterrupt` / `SignalVectoredInterrupt` on the latches. -/
def latchEvents (st : BusSt) (evs : List PEvent) : BusSt :=
  evs.foldl (fun st e => match e with
    | .irq l => if h : l < 3 then { st with ipend := st.ipend.set l true } else st
    | .virq a c => { st with vaddr := a, vpend := true, vctx := c }
    | _ => st) st

def withBus (st : BusSt) (b : Bus) (evs : List PEvent) : BusSt := latchEvents { st with bus := b } evs

/-- The guard both sides apply before a write that reaches `cells[0x1DE]` with the start value:
`hang` for the configurations on which `Dma::DoDma` does not return, `toolong` above 2^16 ticks. -/
def dmaStartGuard (b : Bus) (off : Nat) (v : U16) : Option String :=
  if off = 0x1DE ∧ v = 0x40C0 then
    if h : b.per.dma.activeChannel.toNat < 8 then
      let c := b.per.dma.channels[b.per.dma.activeChannel.toNat]
      if c.dwordMode ≠ 0 ∧ c.size0 = 0xFFFF then some "hang"
      else if c.ticksBound > 0x10000 then some "toolong" else none
    else none
  else none

/-- Offset reached by a data access, if it goes to the MMIO window. -/
def windowOff (b : Bus) (addr : U16) (bypass : Bool) : Option Nat :=
  if b.miu.inMmioWindow addr && !bypass then
    match b.miu.toMmio addr with
    | .ok o => some o.toNat
    | .error _ => none
  else none

def digestCell (b : Bus) (off : Nat) : UInt64 :=
  match b.mmioRead (.ofNat 16 off) with
  | .ok (v, _, _) => UInt64.ofNat v.toNat
  | .error _ => 0x10000

def mmioDigest (b : Bus) : UInt64 := Id.run do
  let mut h := Drive.DmaDrive.fnvInit
  for off in [0:0x800] do
    if off = 0xC2 ∨ off = 0xC6 ∨ off = 0xCA then continue
    h := fnvLE h (digestCell b off) 3
  return h

def memDigest (m : Mem) : UInt64 := Id.run do
  let mut h := Drive.DmaDrive.fnvInit
  for wa in [0:0x40000] do
    let x := UInt64.ofNat (m.read wa).toNat
    h := fnvByte (fnvByte h x) (x >>> 8)
  return h

def dumpTimer (t : Timer) : String :=
  " ".intercalate [hexBV t.updateMmio, hexBV t.pause, hexBV t.countMode, hexBV t.scale,
    hexBV t.startHigh, hexBV t.startLow, hexBV t.counter, hexBV t.counterHigh, hexBV t.counterLow]

def dumpBtdmp (b : Btdmp) : String :=
  " ".intercalate ([hexBV b.clockConfig, hexBV b.period, hexBV b.timer, hexBV b.enable,
    hex b.empty.toNat, hex b.full.toNat, hex b.queue.length] ++ b.queue.map hexBV)

def tstate (b : Bus) : String :=
  s!"{dumpTimer b.per.timer[0]} / {dumpTimer b.per.timer[1]} / {dumpBtdmp b.per.btdmp[0]} / {dumpBtdmp b.per.btdmp[1]}"

/-- The ICU vector cells in the order the harness writes them after `new`. -/
def initVectors (b : Bus) : Bus := Id.run do
  let mut b := b
  for i in [0:16] do
    for off in [0x212 + 4 * i, 0x214 + 4 * i] do
      match b.hostMmioWrite (.ofNat 16 off) 0 with
      | .ok (b', _) => b := b'
      | .error _ => pure ()
  return b

def newBus (seed : Option Nat) : Bus :=
  let sd := seed.getD 0
  initVectors { mem := { bg := seed }, ext := { bg := fun a => extPattern (UInt64.ofNat sd) a } }

/-- `k` ticks, events concatenated. -/
def ticksN : Nat → Bus → List PEvent → R (Bus × List PEvent)
  | 0, b, acc => .ok (b, acc)
  | k + 1, b, acc =>
    match b.tick with
    | .ok (b', ev) => ticksN k b' (acc ++ ev)
    | .error e => .error e

def u16 (n : Nat) : U16 := .ofNat 16 n
def u32 (n : Nat) : U32 := .ofNat 32 n

/-- Result of an op that returns a value, a bus and events. -/
def ansV (st : BusSt) (r : R (U16 × Bus × List PEvent)) : BusSt × String :=
  match r with
  | .ok (v, b, ev) => (withBus st b ev, s!"{hexBV v} | {showEvents ev}")
  | .error e => (st, toString e)

def ansU (st : BusSt) (r : R (Bus × List PEvent)) : BusSt × String :=
  match r with
  | .ok (b, ev) => (withBus st b ev, s!"ok | {showEvents ev}")
  | .error e => (st, toString e)

/-- Word index reached by `dr addr` (no MMIO), if the configuration allows it. -/
def dataCell (b : Bus) (addr : U16) : Option Nat :=
  match b.miu.convert addr with
  | .ok c => if Mem.inRange c then some (Mem.byteAddr c / 2) else none
  | .error _ => none

/-- `viewcheck path word v`: write through one path, read through all; model side. -/
def viewCheck (st : BusSt) (path : String) (w : Nat) (v : U16) : BusSt × String :=
  let b := st.bus
  if w ≥ 0x40000 then (st, "bad-op") else
  -- the write
  let wr : Option Bus :=
    if path = "pw" then (match b.programWrite (u32 w) v with | .ok (b', _) => some b' | .error _ => none)
    else if path = "aw" then
      if w ≥ 0x20000 then (match b.dataWriteA32 (u32 (w - 0x20000)) v with | .ok (b', _) => some b' | .error _ => none)
      else none
    else if path = "raw" then
      some { b with mem := (b.mem.setByte (2 * w) (v.extractLsb' 0 8)).setByte (2 * w + 1) (v.extractLsb' 8 8) }
    else if path = "dw" ∨ path = "dwb" then
      -- the 16-bit data address and bank are derived from the word index; the harness does the same
      if w ≥ 0x20000 then
        let addr := u16 ((w - 0x20000) % 0x10000)
        let byp := path = "dwb"
        if dataCell b addr = some w ∧ (byp ∨ !b.miu.inMmioWindow addr) then
          (match b.dataWrite addr v byp with | .ok (b', _, _) => some b' | .error _ => none)
        else none
      else none
    else none
  match wr with
  | none => (st, "skip")
  | some b' => ({ st with bus := b' }, "same")


def showLatches (st : BusSt) : String :=
  s!"{hex st.ipend[0].toNat} {hex st.ipend[1].toNat} {hex st.ipend[2].toNat} {hex st.vpend.toNat} " ++
    (if st.vpend then s!"{hex st.vctx.toNat} {hexBV st.vaddr}" else "0 0")

def showStop : Stop → String
  | .abort a => toString a
  | .unmodelled k => s!"unmodelled {k}"

/-- `n` times `Run(1)`. -/
def stepsN : Nat → Core → Except Stop Core
  | 0, c => .ok c
  | n + 1, c =>
    match Sys.run 1 c with
    | .ok c' => stepsN n c'
    | .error e => .error e

def runAns (st : BusSt) (r : Except Stop Core) : BusSt × String :=
  match r with
  | .ok c => ({ c with events := [], log := [] }, s!"ok | {showEvents c.events.reverse}")
  | .error e => (st, showStop e)

def isFifo (off : Nat) : Bool := off = 0xC2 || off = 0xC6 || off = 0xCA

def snapshot (b : Bus) : Array UInt64 := (Array.range 0x800).map fun off => if isFifo off then 0 else digestCell b off

def showKind : CellKind → String
  | .rw m => s!"rw {hexBV m}"
  | .rwTrigger m => s!"rwt {hexBV m}"
  | .ro => "ro -"
  | .wo => "wo -"
  | .const c => s!"const {hexBV c}"
  | .fifo => "fifo -"
  | .accum => "accum -"

def kindLine (off : Nat) : String :=
  let c := coupledOffs off
  s!"{showKind (kindAt off)} {hex (emitsAt off).toNat} " ++ (if c.isEmpty then "-" else ",".intercalate (c.map hex))

def wcheck (st : BusSt) (path off : Nat) (v : U16) : BusSt × String :=
  let b := st.bus
  if off ≥ 0x800 ∨ path > 1 then (st, "bad-op") else
  let hostAddr : U16 := u16 (off + 0x800 * ((v.toNat ^^^ off) % 32))
  let dspAddr := b.miu.mmioBase.toNat + off
  if path = 1 ∧ ¬ (b.miu.zPage = 0 ∧ dspAddr ≤ 0xFFFF) then (st, "skip") else
  match dmaStartGuard b off v with
  | some s => (st, s)
  | none =>
  let before := snapshot b
  let r : R (Bus × List PEvent) :=
    if path = 0 then b.hostMmioWrite hostAddr v
    else match b.dataWrite (u16 dspAddr) v false with
      | .ok (b', ev, _) => .ok (b', ev)
      | .error e => .error e
  match r with
  | .error e => (st, toString e)
  | .ok (b', ev) =>
    let after := snapshot b'
    let chg := (List.range 0x800).filterMap fun o =>
      if o ≠ off ∧ before[o]! ≠ after[o]! then some s!"{hex o}:{hex64 before[o]!}>{hex64 after[o]!}" else none
    -- read-back through the same path (the window may have moved / z_page may have changed)
    let rb : String × Bus :=
      if isFifo off then ("-", b')
      else if path = 0 then
        match b'.hostMmioRead hostAddr with
        | .ok (x, b'', _) => (hexBV x, b'')
        | .error e => (toString e, b')
      else
        let a' := b'.miu.mmioBase.toNat + off
        if b'.miu.zPage = 0 ∧ a' ≤ 0xFFFF then
          match b'.dataRead (u16 a') false with
          | .ok (x, b'', _, _) => (hexBV x, b'')
          | .error e => (toString e, b')
        else ("-", b')
    (withBus st rb.2 ev, s!"ok | {showEvents ev} | {rb.1} | " ++ (if chg.isEmpty then "-" else ",".intercalate chg))

/-- `wincheck addr v`, model side: the same two stores (`same` is the proved verdict). -/
def winCheck (st : BusSt) (addr v : U16) : BusSt × String :=
  let b := st.bus
  match windowOff b addr false with
  | none => (st, "skip")
  | some off =>
    if off = 0x1DE ∧ v = 0x40C0 then (st, "skip") else
    match dmaStartGuard b off v with
    | some s => (st, s)
    | none =>
    match b.dataWrite addr v false with
    | .error e => (st, toString e)
    | .ok (b1, ev, _) =>
      match b1.miu.convert addr with
      | .error _ => (withBus st b1 ev, s!"same | {showEvents ev} | noconv")
      | .ok conv =>
        if !Mem.inRange conv then (withBus st b1 ev, "oob") else
        let under := b1.mem.read (Mem.byteAddr conv / 2)
        match b1.dataWrite addr (~~~v) true with
        | .error e => (withBus st b1 ev, toString e)
        | .ok (b2, _, _) => (withBus st b2 ev, s!"same | {showEvents ev} | {hexBV under}")

def busStep2 (st : BusSt) (args : List String) : BusSt × String :=
  let b := st.bus
  match args with
  | "new" :: kind :: rest =>
    if kind ≠ "own" ∧ kind ≠ "user" ∧ kind ≠ "capi" then (st, "bad-op") else
    match rest with
    | [] => ({ bus := newBus none }, "ok")
    | [seed] =>
      match parseHex seed with
      | some sd => ({ bus := newBus (some sd) }, "ok")
      | none => (st, "bad-op")
    | _ => (st, "bad-op")
  | ["rst"] => (Sys.reset st, "ok")
  | ["semget"] => (st, s!"{hexBV b.getSemaphore} | -")
  | ["srchi"] =>
    match b.dmaChan0GetSrcHigh with
    | .ok (v, b') => ({ st with bus := b' }, s!"{hexBV v} | -")
    | .error e => (st, toString e)
  | ["dsthi"] =>
    match b.dmaChan0GetDstHigh with
    | .ok (v, b') => ({ st with bus := b' }, s!"{hexBV v} | -")
    | .error e => (st, toString e)
  | ["dump"] => (st, Drive.dumpAll st.regs)
  | ["regdigest"] => (st, hex (Drive.regDigest st.regs))
  | ["latches"] => (st, showLatches st)
  | ["state"] =>
    (st, s!"{hex (Drive.regDigest st.regs)} {hex64 (mmioDigest b)} {hex64 (memDigest b.mem)} | {showLatches st}")
  | ["gen", seed] =>
    match parseHex seed with
    | some sd => ({ st with regs := Drive.genRegs sd }, "ok")
    | none => (st, "bad-op")
  | ["reg", name] =>
    match Drive.flatIndex name with
    | some i => (st, hex (st.regs.toFlat.getD i 0))
    | none => (st, "bad-op")
  | ["poke", name, v] =>
    match Drive.flatIndex name, parseHex v with
    | some i, some v => ({ st with regs := Regs.ofFlat (st.regs.toFlat.set! i v) }, "ok")
    | _, _ => (st, "bad-op")
  | ["run", n] =>
    match parseHex n with
    | some n => if n > 0x4000000 then (st, "bad-op") else runAns st (Sys.run n { st with events := [], log := [] })
    | none => (st, "bad-op")
  | ["steps", n] =>
    match parseHex n with
    | some n => if n > 0x4000000 then (st, "bad-op") else runAns st (stepsN n { st with events := [], log := [] })
    | none => (st, "bad-op")
  | ["tick"] => ansU st b.tick
  | ["tstate"] => (st, tstate b)
  | ["digest"] => (st, hex64 (mmioDigest b))
  | ["memdigest"] => (st, hex64 (memDigest b.mem))
  | ["latch"] =>
    let s := s!"{hex st.ipend[0].toNat} {hex st.ipend[1].toNat} {hex st.ipend[2].toNat} {hex st.vpend.toNat} " ++
      (if st.vpend then s!"{hex st.vctx.toNat} {hexBV st.vaddr}" else "0 0")
    ({ st with ipend := Vector.replicate 3 false, vpend := false }, s)
  | ["wcheck", path, off, v] =>
    match parseHex path, parseHex off, parseHex v with
    | some path, some off, some v => wcheck st path off (u16 v)
    | _, _, _ => (st, "bad-op")
  | ["viewcheck", path, w, v] =>
    match parseHex w, parseHex v with
    | some w, some v => viewCheck st path w (u16 v)
    | _, _ => (st, "bad-op")
  | [op, x] =>
    match parseHex x with
    | none => (st, "bad-op")
    | some x =>
      match op with
      | "mr" => ansV st (b.hostMmioRead (u16 x))
      | "kind" => if x < 0x800 then (st, kindLine x) else (st, "bad-op")
      | "mirrorcheck" =>
        if x ≥ 0x800 ∨ x = 0xC2 ∨ x = 0xC6 ∨ x = 0xCA then (st, "bad-op") else
        match b.mmioRead (u16 x) with
        | .ok (v, _, _) => (st, s!"same {hexBV v}")
        | .error e => (st, toString e)
      | "pr" =>
        match b.programRead (u32 x) with
        | .ok (v, as) => (st, s!"{hexBV v} | - | {showAccesses as}")
        | .error e => (st, toString e)
      | "ar" =>
        match b.dataReadA32 (u32 x) with
        | .ok (v, as) => (st, s!"{hexBV v} | - | {showAccesses as}")
        | .error e => (st, toString e)
      | "raw" => if x < 0x80000 then (st, hexBV (b.mem.byte x)) else (st, "bad-op")
      | "recv" =>
        match b.recvData x with
        | .ok (v, b') => ({ st with bus := b' }, s!"{hexBV v} | -")
        | .error e => (st, toString e)
      | "peek" => (st, showR (fun v => s!"{hexBV v} | -") (b.peekRecvData x))
      | "ready" => (st, showR (fun (v : Bool) => s!"{hex v.toNat} | -") (b.recvDataIsReady x))
      | "empty" => (st, showR (fun (v : Bool) => s!"{hex v.toNat} | -") (b.sendDataIsEmpty x))
      | "semset" => let r := b.setSemaphore (u16 x); (withBus st r.1 r.2, s!"ok | {showEvents r.2}")
      | "semclr" => ({ st with bus := b.clearSemaphore (u16 x) }, "ok | -")
      | "semmask" => let r := b.maskSemaphore (u16 x); (withBus st r.1 r.2, s!"ok | {showEvents r.2}")
      | "hr16" => ansV st (b.ahbmRead16 (u32 x))
      | "hr32" => ansV st (b.ahbmRead32 (u32 x))
      | "ausz" => (st, showR (fun v => s!"{hexBV v} | -") (b.ahbmGetUnitSize (u16 x)))
      | "adir" => (st, showR (fun v => s!"{hexBV v} | -") (b.ahbmGetDirection (u16 x)))
      | "adma" => (st, showR (fun v => s!"{hexBV v} | -") (b.ahbmGetDmaChannel (u16 x)))
      | "ticks" => if x > 0x20000 then (st, "bad-op") else ansU st (ticksN x b [])
      | "skip" =>
        -- an enabled audio port with an empty queue reports no horizon: `Btdmp::Skip` then loops once per period
        if x > 0x10000 then (st, "bad-op") else
        match b.coreSkip x with
        | .ok (k, b', ev) => (withBus st b' ev, s!"{hex k} | {showEvents ev}")
        | .error e => (st, toString e)
      | _ => (st, "bad-op")
  | [op, x, y] =>
    match parseHex x, parseHex y with
    | some x, some y =>
      match op with
      | "mw" =>
        match dmaStartGuard b (x % 0x800) (u16 y) with
        | some s => (st, s)
        | none => ansU st (b.hostMmioWrite (u16 x) (u16 y))
      | "dr" =>
        match b.dataRead (u16 x) (y ≠ 0) with
        | .ok (v, b', ev, as) => (withBus st b' ev, s!"{hexBV v} | {showEvents ev} | {showAccesses as}")
        | .error e => (st, toString e)
      | "pw" =>
        match b.programWrite (u32 x) (u16 y) with
        | .ok (b', as) => ({ st with bus := b' }, s!"ok | - | {showAccesses as}")
        | .error e => (st, toString e)
      | "aw" =>
        match b.dataWriteA32 (u32 x) (u16 y) with
        | .ok (b', as) => ({ st with bus := b' }, s!"ok | - | {showAccesses as}")
        | .error e => (st, toString e)
      | "wincheck" => winCheck st (u16 x) (u16 y)
      | "rawset" =>
        if x < 0x80000 then ({ st with bus := { b with mem := b.mem.setByte x (.ofNat 8 y) } }, "ok") else (st, "bad-op")
      | "send" => ansU st (b.sendData x (u16 y))
      | "hw16" => ansU st (b.ahbmWrite16 (u32 x) (u16 y))
      | "hw32" => ansU st (b.ahbmWrite32 (u32 x) (u32 y))
      | "btperiod" =>
        if h : x < 2 ∧ y ≠ 0 ∧ y ≤ 0xFFFF then
          have h := h.1
          let bt := { b.per.btdmp[x] with period := u16 y }
          ({ st with bus := { b with per := { b.per with btdmp := b.per.btdmp.set x bt } } }, "ok")
        else (st, "bad-op")
      | _ => (st, "bad-op")
    | _, _ => (st, "bad-op")
  | ["dw", x, y, z] =>
    match parseHex x, parseHex y, parseHex z with
    | some x, some y, some z =>
      let guard := match windowOff b (u16 x) (z ≠ 0) with
        | some o => dmaStartGuard b o (u16 y)
        | none => none
      match guard with
      | some s => (st, s)
      | none =>
        match b.dataWrite (u16 x) (u16 y) (z ≠ 0) with
        | .ok (b', ev, as) => (withBus st b' ev, s!"ok | {showEvents ev} | {showAccesses as}")
        | .error e => (st, toString e)
    | _, _, _ => (st, "bad-op")
  | _ => (st, "bad-op")

/-- `fill` (heap pre-fill of the harness process) has no effect on the model; `newraw` is `new` without
the harness's zeroing of the ICU vector cells - the model's fresh machine has them zero. -/
def busStep (st : BusSt) (args : List String) : BusSt × String :=
  match args with
  | ["fill", _] => (st, "ok")
  | "newraw" :: rest => busStep2 st ("new" :: rest)
  | _ => busStep2 st args

end Drive.BusDrive
