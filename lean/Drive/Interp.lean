import Drive.Util
import TeakraModel.Run
import TeakraModel.Generated.Flat
/-! Protocol unit `interp`: one `Interpreter::Run(1)` from a constructed state (mirror of
`harness/u_interp.cpp`). -/
namespace Drive
open Teakra

def mask64 : Nat := 2 ^ 64 - 1

/-- The same draw procedure as `InterpUnit::Gen` in the harness. -/
def genRegs (seed : Nat) : Regs := Id.run do
  let mut s := seed % 2 ^ 64
  let mut out : Array Nat := Array.mkEmpty flatSpec.size
  for (_, width, kind) in flatSpec do
    s := (s + 1) % 2 ^ 64
    let v := splitmix64 ((s * 0x2545F4914F6CDD1D + 0x1234567) % 2 ^ 64)
    let mut val := 0
    if kind == "z" then val := 0
    else if kind.startsWith "c" then val := (kind.drop 1).toNat!
    else if kind == "acc" then
      s := (s + 1) % 2 ^ 64
      let x := splitmix64 ((s * 0x2545F4914F6CDD1D + 0x1234567) % 2 ^ 64)
      let sel := v % 8
      if sel == 0 then val := 0
      else if sel < 4 then
        let lo := x % 2 ^ 32
        val := if lo ≥ 2 ^ 31 then lo + (2 ^ 64 - 2 ^ 32) else lo
      else
        val := if x.testBit 39 then (x % 2 ^ 40) + (2 ^ 64 - 2 ^ 40) else x % 2 ^ 40
    else
      let mask := 2 ^ width - 1
      let sel := v % 8
      let x := (v >>> 8) &&& mask
      val := if sel == 0 then 0 else if sel == 1 then mask else if sel == 2 then 2 ^ (width - 1)
             else if sel == 3 then 2 ^ (width - 1) - 1 else x
      if kind == "pc" && val > 0x3FFF0 then val := val - 0x10
    out := out.push val
  return Regs.ofFlat out

def fnvAdd (h : Nat) (v : Nat) : Nat := Id.run do
  let mut h := h
  for i in [0:8] do
    h := ((h ^^^ ((v >>> (8 * i)) % 256)) * 0x100000001b3) % 2 ^ 64
  return h

def fnvInit : Nat := 0xcbf29ce484222325

def regDigest (r : Regs) : Nat := r.toFlat.foldl fnvAdd fnvInit

def logDigest (log : List Access) : Nat :=
  log.reverse.foldl (fun h a => fnvAdd (fnvAdd (fnvAdd h a.byteAddr) a.isWrite.toNat) a.value.toNat) fnvInit

def dumpAll (r : Regs) : String := " ".intercalate (r.toFlat.toList.map hex)

def logText (log : List Access) : String :=
  " ".intercalate (log.reverse.map fun a => s!"{if a.isWrite then "w" else "r"} {hex a.byteAddr} {hexBV a.value}")

def showStop : Stop → String
  | .abort a => toString a
  | .unmodelled k => s!"unmodelled {k}"

def flatIndex (name : String) : Option Nat :=
  (List.range flatSpec.size).find? fun i => (flatSpec.getD i ("", 0, "")).1 == name

def interpStep (c : Core) (args : List String) : Core × String :=
  match args with
  | ["new"] => ({}, "ok")
  | ["gen", seed] =>
    match parseHex seed with
    | some seed => ({ regs := genRegs seed, bus := { mem := { bg := some seed } } }, "ok")
    | none => (c, "bad-op")
  | "set" :: rest =>
    match parseAll rest with
    | some vs => if vs.length == flatSpec.size then ({ regs := Regs.ofFlat vs.toArray }, "ok") else (c, "bad-op")
    | none => (c, "bad-op")
  | ["poke", name, v] =>
    match flatIndex name, parseHex v with
    | some i, some v => ({ c with regs := Regs.ofFlat (c.regs.toFlat.set! i v) }, "ok")
    | _, _ => (c, "bad-op")
  | ["mem", wa, v] =>
    match parseHex wa, parseHex v with
    | some wa, some v => ({ c with bus := { c.bus with mem := c.bus.mem.write wa (.ofNat 16 v) } }, "ok")
    | _, _ => (c, "bad-op")
  | ["peek", wa] =>
    match parseHex wa with
    | some wa => (c, hexBV (c.bus.mem.read wa))
    | none => (c, "bad-op")
  | ["dump"] => (c, dumpAll c.regs)
  | [op, opc, exp] =>
    if op ≠ "step" ∧ op ≠ "stepv" then (c, "bad-op") else
    match parseHex opc, parseHex exp with
    | some opc, some exp =>
      let pc := c.regs.pc.toNat ||| (c.regs.prpage.toNat <<< 18)
      let mem := if pc + 1 < 0x40000 then (c.bus.mem.write pc (.ofNat 16 opc)).write (pc + 1) (.ofNat 16 exp) else c.bus.mem
      let c0 := { c with bus := { c.bus with mem := mem }, log := [], events := [] }
      match (cycleTick.run c0 : Except Stop (Unit × Core)) with
      | .ok (_, c') =>
        if op == "stepv" then (c', s!"ok {dumpAll c'.regs} | {logText c'.log}")
        else (c', s!"ok {hex (regDigest c'.regs)} {hex (logDigest c'.log)} {hex c'.log.length}")
      | .error e => (c0, showStop e)
    | _, _ => (c, "bad-op")
  | ["log"] => (c, logText c.log)
  | _ => (c, "bad-op")

end Drive
