import Drive.Util
import Drive.Timer
import Drive.Interp
import Drive.Btdmp
import Drive.Apbp
import Drive.Icu
import Drive.Decode
import Drive.Dma
import Drive.Alu
import Drive.Regs
import Drive.Asm
import Drive.Bus
import Drive.Dis
/-!
Line-protocol driver for the executable model: one request per line on stdin, one response per
line on stdout.  `<unit> <op> <hex args…>`.
-/
open Drive Drive.DmaDrive Teakra

structure St where
  timer : Timer := {}
  core : Core := {}
  btdmp : Btdmp := {}
  apbp : Apbp := {}
  apbpSys : ApbpSys := {}
  icu : Icu := {}
  dma : DmaSt := {}
  regs : RegsSt := default
  asm : AsmSt := {}
  bus : Drive.BusDrive.BusSt := {}

def stepLine (st : St) (line : String) : St × String :=
  match (line.trimAscii.toString.splitOn " ").filter (· ≠ "") with
  | "timer" :: args => let (t, out) := timerStep st.timer args; ({ st with timer := t }, out)
  | "interp" :: args => let (c, out) := interpStep st.core args; ({ st with core := c }, out)
  | "btdmp" :: args => let (b, out) := btdmpStep st.btdmp args; ({ st with btdmp := b }, out)
  | "apbp" :: args => let (a, out) := apbpStep st.apbp args; ({ st with apbp := a }, out)
  | "apbpsys" :: args => let (a, out) := apbpSysStep st.apbpSys args; ({ st with apbpSys := a }, out)
  | "icu" :: args => let (a, out) := icuStep st.icu args; ({ st with icu := a }, out)
  | "dec" :: args => (st, decodeStep args)
  | "dma" :: args => let (d, out) := dmaStep st.dma args; ({ st with dma := d }, out)
  | "alu" :: args => (st, aluStep args)
  | "regs" :: args => let (r, out) := regsStep st.regs args; ({ st with regs := r }, out)
  | "asm" :: args => let (a, out) := asmStep st.asm args; ({ st with asm := a }, out)
  | "dis" :: args => (st, disStep args)
  | "bus" :: args => let (b, out) := Drive.BusDrive.busStep st.bus args; ({ st with bus := b }, out)
  | [] => (st, "")
  | _ => (st, "bad-unit")

partial def loop (hin : IO.FS.Stream) (hout : IO.FS.Stream) (st : St) : IO Unit := do
  let line ← hin.getLine
  if line.isEmpty then return ()
  let (st', out) := stepLine st line
  hout.putStrLn out
  loop hin hout st'

def main : IO Unit := do
  let hin ← IO.getStdin
  let hout ← IO.getStdout
  loop hin hout {}
